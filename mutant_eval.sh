#!/bin/sh
# usage: mutant_eval.sh <patch.diff> <property> [tier]
# Applies the patch to a scratch worktree of /repo's HEAD, confirms that it builds and
# that the existing suite passes, runs the property's check against it, prints the
# verdict and removes the worktree. Never touches /repo's working tree or /verif's
# evidence/replays.
set -u
HERE="$(cd "$(dirname "$0")" && pwd)"
. "$HERE/env.sh"
PATCH="$(realpath "$1")"; PROP="$2"; TIER="${3:-quick}"
WT="$(mktemp -d /var/tmp/mutwt-XXXXXX)"; rmdir "$WT"
OUT="$(mktemp -d /var/tmp/mutout-XXXXXX)"
git -C /repo worktree add -q --detach "$WT" HEAD || exit 2
cleanup() { git -C /repo worktree remove --force "$WT" >/dev/null 2>&1; }
trap cleanup EXIT
if ! git -C "$WT" apply "$PATCH"; then echo "RESULT patch-does-not-apply"; exit 2; fi
if ! (cd "$WT" && go build ./... >"$OUT/build.log" 2>&1); then echo "RESULT does-not-build"; cat "$OUT/build.log"; exit 2; fi
if ! (cd "$WT" && go test -vet=off -count=1 ./... >"$OUT/test.log" 2>&1); then echo "RESULT existing-tests-fail"; tail -20 "$OUT/test.log"; exit 2; fi
echo "mutant builds, existing tests pass"
VERIF_REPO="$WT" VERIF_EVIDENCE_DIR="$OUT/evidence" VERIF_REPLAY_DIR="$OUT/replays" "$HERE/verif" check "$PROP" --tier "$TIER" >"$OUT/check.log" 2>&1
RC=$?
tail -8 "$OUT/check.log"
echo "RESULT rc=$RC ($( [ $RC = 1 ] && echo CAUGHT || ([ $RC = 0 ] && echo MISSED || echo TROUBLE) )) out=$OUT"
exit $RC
