#!/bin/sh
# usage: mutant_confirm.sh <mutant-dir>   (contains patch.diff and demo_test.go or demo.sh)
# Confirms, in a scratch worktree of /repo's HEAD: the demonstration passes without the
# patch and fails with it; with the patch the tree builds and the existing suite passes.
set -u
HERE="$(cd "$(dirname "$0")" && pwd)"; . "$HERE/env.sh"
D="$(realpath "$1")"
WT="$(mktemp -d /var/tmp/mutcf-XXXXXX)"; rmdir "$WT"
git -C /repo worktree add -q --detach "$WT" HEAD || exit 2
trap 'git -C /repo worktree remove --force "$WT" >/dev/null 2>&1' EXIT
RACE=""; grep -qi -- "-race" "$D/notes.md" 2>/dev/null && RACE="-race"
rundemo() {
  if [ -f "$D/demo_test.go" ]; then
    cp "$D/demo_test.go" "$WT/zz_demo_test.go"
    (cd "$WT" && go test -vet=off -count=1 $RACE -run "$(grep -o 'func Test[A-Za-z0-9_]*' "$D/demo_test.go" | sed 's/func //' | paste -sd'|')" . >"$WT/.demo.log" 2>&1); rc=$?
    rm -f "$WT/zz_demo_test.go"; return $rc
  else
    (cd "$WT" && sh "$D/demo.sh" >"$WT/.demo.log" 2>&1); return $?
  fi
}
rundemo; A=$?
git -C "$WT" apply "$D/patch.diff" || { echo "CONFIRM patch-does-not-apply"; exit 2; }
(cd "$WT" && go build ./... ) || { echo "CONFIRM does-not-build"; exit 2; }
(cd "$WT" && go test -vet=off -count=1 ./... >"$WT/.suite.log" 2>&1); S=$?
rundemo; B=$?
echo "CONFIRM demo_without_patch=$A demo_with_patch=$B suite_with_patch=$S race=$RACE"
[ $A = 0 ] && [ $B != 0 ] && [ $S = 0 ]
