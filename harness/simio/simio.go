// Package simio is the simulated process environment of cmd/jpgo (DESIGN.md §2.4):
// argv, stdin, a file system, stdout/stderr and the exit status, all owned by the
// simulator. jpgo's real main.go is compiled against shim packages that route every
// os/fmt/flag/ioutil/log call here. Single threaded: jpgo has no goroutines.
package simio

import (
	"bytes"
	"errors"
	"io"
	"syscall"
)

// ReadPlan decides everything a reader does: chunk sizes, benign oddities and the
// hard fault.
type ReadPlan struct {
	Data        []byte
	Chunk       string // all | one | fixed | random
	K           int    // fixed chunk size
	Seed        uint64 // random chunk sizes
	ZeroReadAt  []int  // indices of Read calls that return (0, nil)
	EOFWithData bool   // the last data is returned together with io.EOF
	FailAfter   int    // -1: never; k: a hard error once k bytes have been delivered
	// Transient: "" (the error at FailAfter is EIO and every later Read fails too), or
	// "EINTR" / "EAGAIN": the error is returned by exactly one Read, after which the
	// reader carries on with the remaining bytes.
	Transient string
}

type Reader struct {
	Plan       ReadPlan
	off        int
	calls      int
	rng        uint64
	Failed     bool
	ReachedEOF bool
	Stats      *Counters
	transDone  bool
}

type Counters struct {
	Reads, ZeroReads, ShortReads, HardReadErrors, EOFWithData, OpenErrors, WriteErrors, Writes, Opens, Exits int
	ErrorOnLastByte, ErrorAtStart, ErrorAfterAll                                                             int
	TransientReadErrors                                                                                      int
}

var ErrIO = syscall.EIO

func (r *Reader) next() uint64 {
	r.rng += 0x9e3779b97f4a7c15
	z := r.rng
	z = (z ^ (z >> 30)) * 0xbf58476d1ce4e5b9
	z = (z ^ (z >> 27)) * 0x94d049bb133111eb
	return z ^ (z >> 31)
}

func (r *Reader) Read(p []byte) (int, error) {
	if r.calls == 0 {
		r.rng = r.Plan.Seed
	}
	idx := r.calls
	r.calls++
	r.Stats.Reads++
	if len(p) == 0 {
		return 0, nil
	}
	for _, z := range r.Plan.ZeroReadAt {
		if z == idx {
			r.Stats.ZeroReads++
			return 0, nil
		}
	}
	if r.Plan.FailAfter >= 0 && r.off >= r.Plan.FailAfter && r.Plan.Transient != "" && !r.transDone {
		r.transDone = true
		r.Stats.TransientReadErrors++
		if r.Plan.Transient == "EINTR" {
			return 0, syscall.EINTR
		}
		return 0, syscall.EAGAIN
	}
	if r.Plan.FailAfter >= 0 && r.off >= r.Plan.FailAfter && r.Plan.Transient == "" {
		r.Failed = true
		r.Stats.HardReadErrors++
		switch {
		case r.Plan.FailAfter == 0:
			r.Stats.ErrorAtStart++
		case r.Plan.FailAfter >= len(r.Plan.Data):
			r.Stats.ErrorAfterAll++
		case r.Plan.FailAfter == len(r.Plan.Data)-1:
			r.Stats.ErrorOnLastByte++
		}
		return 0, ErrIO
	}
	rem := len(r.Plan.Data) - r.off
	if rem == 0 {
		r.ReachedEOF = true
		return 0, io.EOF
	}
	n := len(p)
	switch r.Plan.Chunk {
	case "one":
		n = 1
	case "fixed":
		if r.Plan.K > 0 && r.Plan.K < n {
			n = r.Plan.K
		}
	case "random":
		m := 1 + int(r.next()%uint64(2*len(p)))
		if r.next()%4 == 0 {
			m = 1 + int(r.next()%7)
		}
		if m < n {
			n = m
		}
	}
	if n > rem {
		n = rem
	}
	if r.Plan.FailAfter >= 0 && r.off+n > r.Plan.FailAfter && !r.transDone {
		n = r.Plan.FailAfter - r.off
	}
	if n < len(p) && n < rem {
		r.Stats.ShortReads++
	}
	copy(p, r.Plan.Data[r.off:r.off+n])
	r.off += n
	if r.off == len(r.Plan.Data) && r.Plan.EOFWithData && (r.Plan.FailAfter < 0 || r.transDone) {
		r.Stats.EOFWithData++
		r.ReachedEOF = true
		return n, io.EOF
	}
	return n, nil
}

type FileSpec struct {
	OpenFault string // "", notexist, perm, isdir
	Plan      ReadPlan
	// Fifo: the name is a named pipe (or /dev/stdin on a pipe, a process substitution):
	// Stat reports size 0 and a non-regular mode, reading delivers the data as usual.
	Fifo bool
}

// IsFifo reports whether name is a simulated named pipe.
func (w *World) IsFifo(name string) bool {
	f, ok := w.Files[name]
	return ok && f.Fifo
}

type Writer struct {
	Buf       bytes.Buffer
	FailAfter int // -1 never
	Failed    bool
	Stats     *Counters
}

func (w *Writer) Write(p []byte) (int, error) {
	w.Stats.Writes++
	if w.FailAfter >= 0 {
		room := w.FailAfter - w.Buf.Len()
		if room < len(p) {
			if room > 0 {
				w.Buf.Write(p[:room])
			} else {
				room = 0
			}
			w.Failed = true
			w.Stats.WriteErrors++
			return room, syscall.EPIPE
		}
	}
	return w.Buf.Write(p)
}

type World struct {
	Args   []string
	Stdin  *Reader
	Files  map[string]*FileSpec
	Stdout *Writer
	Stderr *Writer
	C      Counters
	Opened []string
	// Env is the simulated process environment; EnvAsked records (in order, once each)
	// every variable name the program looked up.
	Env      map[string]string
	EnvAsked []string
}

// Getenv is the simulated os.LookupEnv.
func (w *World) Getenv(key string) (string, bool) {
	seen := false
	for _, k := range w.EnvAsked {
		if k == key {
			seen = true
			break
		}
	}
	if !seen && len(w.EnvAsked) < 64 {
		w.EnvAsked = append(w.EnvAsked, key)
	}
	v, ok := w.Env[key]
	return v, ok
}

// Environ is the simulated os.Environ (sorted by name).
func (w *World) Environ() []string {
	var out []string
	for k, v := range w.Env {
		out = append(out, k+"="+v)
	}
	for i := 1; i < len(out); i++ {
		for j := i; j > 0 && out[j] < out[j-1]; j-- {
			out[j], out[j-1] = out[j-1], out[j]
		}
	}
	return out
}

// W is the world of the run in progress.
var W *World

func NewWorld(args []string, stdin ReadPlan, files map[string]*FileSpec, stdoutFailAfter int) *World {
	w := &World{Args: args, Files: files}
	w.Stdin = &Reader{Plan: stdin, Stats: &w.C}
	w.Stdout = &Writer{FailAfter: stdoutFailAfter, Stats: &w.C}
	w.Stderr = &Writer{FailAfter: -1, Stats: &w.C}
	return w
}

// ExitPanic is raised by the shim os.Exit and recovered by the harness.
type ExitPanic struct{ Code int }

var ErrNotExist = syscall.ENOENT
var ErrPermission = syscall.EACCES
var ErrIsDir = syscall.EISDIR

// OpenFile returns a reader for a simulated file or the planned open error.
func (w *World) OpenFile(name string) (*Reader, error) {
	w.C.Opens++
	w.Opened = append(w.Opened, name)
	f, ok := w.Files[name]
	if !ok {
		w.C.OpenErrors++
		return nil, ErrNotExist
	}
	switch f.OpenFault {
	case "notexist":
		w.C.OpenErrors++
		return nil, ErrNotExist
	case "perm":
		w.C.OpenErrors++
		return nil, ErrPermission
	}
	return &Reader{Plan: f.Plan, Stats: &w.C}, nil
}

func (w *World) IsDir(name string) bool {
	f, ok := w.Files[name]
	return ok && f.OpenFault == "isdir"
}

func (w *World) Size(name string) (int64, error) {
	f, ok := w.Files[name]
	if !ok || f.OpenFault == "notexist" {
		return 0, ErrNotExist
	}
	if f.Fifo {
		return 0, nil
	}
	return int64(len(f.Plan.Data)), nil
}

var ErrClosed = errors.New("file already closed")
