module verifharness

go 1.23

require (
	github.com/anishathalye/porcupine v1.3.0
	github.com/jmespath/go-jmespath v0.0.0
)

// the check copies this module next to the instrumented scratch copy of /repo
replace github.com/jmespath/go-jmespath => ../repo
