// Package gen produces the workloads of the simulation: documents following one
// fixed schema (DESIGN.md Appendix B) with seeded shapes, and JMESPath expressions
// over that schema — a systematic table (every built-in x argument source x
// context) and a type-directed random generator biased to constructs that reorder,
// combine or alias data.
package gen

import (
	"encoding/json"
	"fmt"
	"sort"
	"strings"
)

// Rng is a SplitMix64 stream.
type Rng struct {
	S   uint64
	big int // how many more arrays of this document may be large
	// wide: this document's two-level arrays (nested, grid) are large at the first, the
	// second or both levels
	wide1, wide2 bool
	square       int    // > 0: both levels of nested are square+0..7 long
	bigField     string // the array that is certainly large in this document ("" = none)
}

func (r *Rng) Next() uint64 {
	r.S += 0x9e3779b97f4a7c15
	z := r.S
	z = (z ^ (z >> 30)) * 0xbf58476d1ce4e5b9
	z = (z ^ (z >> 27)) * 0x94d049bb133111eb
	return z ^ (z >> 31)
}
func (r *Rng) Intn(n int) int {
	if n <= 0 {
		return 0
	}
	return int(r.Next() % uint64(n))
}
func (r *Rng) Chance(num, den int) bool { return r.Intn(den) < num }
func (r *Rng) Pick(xs []string) string  { return xs[r.Intn(len(xs))] }

// ---------------------------------------------------------------- documents

// CanonicalDoc is the fixed core document of Appendix B.
const CanonicalDoc = `{"nums":[3,1,2,2,-5,10.5],"strs":["b","a","c","a","é"],` +
	`"objs":[{"k":3,"s":"c","t":[1]},{"k":1,"s":"a","t":[2,3]},{"k":2,"s":"b","t":[]},{"k":1,"s":"a2","t":null}],` +
	`"mixed":[{"k":1},{"k":"x"},{"k":2},{"k":0}],"mixeds":[{"k":"b"},{"k":"a"},{"k":1},{"k":"c"}],` +
	`"sparse":[1,null,2,null,null,3,"a",null],"sparseobjs":[{"k":1},null,{"k":2,"t":null},null],"recs":[{"v":[3,1],"u":"b","w":2},{"v":[],"u":"a","w":null},{"v":[2],"u":"c","w":1},{"v":[],"u":"d","w":5}],"nested":[[1,2],[3],[],[4,[5]]],"grid":[[{"k":2,"s":"b","t":[1]},{"k":1,"s":"a","t":[]}],[{"k":3,"s":"c","t":[2,3]}],[]],` +
	`"tree":{"name":"r","kids":[{"name":"a","kids":[{"name":"b","kids":[]}]},{"name":"c","kids":[]}]},"o1":{"a":1,"b":{"c":[1,2]}},"o2":{"b":2,"z":[9]},"o3":{"a":{"x":1},"b":{"c":[9],"d":{"e":{"f":1}},"g":{"h":2}},"m0":{"p":{"q":1}}},` +
	`"s":"héllo","n":-3.5,"t":true,"z":null,"e":[],"eo":{}}`

func arrLenF(r *Rng, field string) int {
	if field != "" && field == r.bigField {
		return bigLen(r)
	}
	return arrLen(r)
}

func arrLen(r *Rng) int {
	if r.big > 0 && r.Chance(1, 3) {
		r.big--
		return bigLen(r) // past the size thresholds of small-vector / big-input code paths
	}
	switch r.Intn(10) {
	case 0:
		return 0
	case 1:
		return 1
	case 2:
		return 2
	case 3, 4, 5:
		return 3 + r.Intn(4)
	case 6, 7:
		return 7 + r.Intn(6)
	case 8:
		return 13 + r.Intn(12) // past sort.Stable's insertion-sort block of 20
	default:
		return 21 + r.Intn(14)
	}
}

// bigLen: a length just past one of the thresholds at which implementations switch
// strategy (powers of two and round numbers), or anywhere in 64..400.
func bigLen(r *Rng) int {
	if r.Chance(1, 2) {
		return 64 + r.Intn(340)
	}
	t := []int{32, 64, 100, 128, 256, 512, 1000, 1024}[r.Intn(8)]
	return t + r.Intn(t/8+2)
}

func num(r *Rng) float64 {
	if r.Chance(1, 60) {
		return []float64{9007199254740993, 1e21, 1.5e300, 123456789012345680000, 0.1, 1e-7, -9007199254740991, 4294967296, 2147483648}[r.Intn(9)]
	}
	switch r.Intn(6) {
	case 0:
		return float64(r.Intn(4)) // many duplicates
	case 1:
		return -float64(r.Intn(50))
	case 2:
		return float64(r.Intn(1000)) / 4
	default:
		return float64(r.Intn(40))
	}
}

var words = []string{"a", "b", "c", "a2", "é", "zz", "", "héllo", "B", "10", "x y", "k", "a\u0001b", "bell\a", "del\u007f", "tab\there", "nl\n", "q\"uote", "<a>&", "\u2028", "\U0001F600", "back\\slash", "\u0080", "20% off", "100%", "%s%d%%", "\\u003c", "a\\nb", "$HOME", "`tick`", "'single'"}

func str(r *Rng) string {
	if r.Chance(1, 5) {
		return fmt.Sprintf("w%d", r.Intn(30))
	}
	return words[r.Intn(len(words))]
}

// Doc generates a document with the canonical schema and seeded shapes.
func Doc(r *Rng) string { return DocFor(r, "") }

// DocFor draws a document for the expression(s) in hint: one time in five an array that the
// hint mentions is made large (a flat one certainly large, a two-level one wide), so that
// size-dependent paths are reached by the expressions that walk those arrays and not only
// when two independent rare draws coincide.
func DocFor(r *Rng, hint string) string {
	if r.Chance(1, 8) {
		return CanonicalDoc
	}
	r.big, r.wide1, r.wide2, r.bigField, r.square = 0, false, false, "", 0
	forceWide := false
	if hint != "" && r.Chance(1, 5) {
		var cands []string
		for _, f := range []string{"nums", "strs", "objs", "recs", "nested", "grid"} {
			if strings.Contains(hint, f) {
				cands = append(cands, f)
			}
		}
		if len(cands) > 0 {
			f := cands[r.Intn(len(cands))]
			if f == "nested" || f == "grid" {
				forceWide = true
			} else {
				r.bigField = f
			}
		}
	}
	// an expression that projects through both levels of a two-level array gets both
	// levels long one time in three (nested parallelism / chunking needs both)
	forceBoth := false
	for _, pat := range []string{"nested[*][", "nested[][", "grid[*][", "grid[]["} {
		if hint != "" && strings.Contains(hint, pat) {
			forceBoth = true
		}
	}
	if forceBoth && r.Chance(1, 3) {
		forceWide = true
	} else {
		forceBoth = false
	}
	if r.Chance(1, 20) {
		r.big = 1 // one document in twenty has one array of 64-400 elements
	} else if r.Chance(1, 40) {
		r.big = 2
	}
	if forceWide || r.Chance(1, 50) {
		// two-level arrays: many short lists, few long lists, or (rarely) both levels long
		sel := r.Intn(6)
		if forceBoth {
			sel = 5
		}
		switch sel {
		case 0, 1:
			r.wide1 = true
		case 2, 3:
			r.wide2 = true
		default:
			r.wide1, r.wide2 = true, true
			if r.Chance(1, 2) {
				// both levels just past one likely threshold (nested parallelism, chunking)
				r.square = []int{32, 64, 128}[r.Intn(3)]
			}
		}
	}
	d := map[string]interface{}{}
	n := arrLenF(r, "nums")
	nums := make([]interface{}, n)
	for i := range nums {
		nums[i] = num(r)
	}
	if r.Chance(1, 6) { // already sorted: sort fast paths
		fs := make([]float64, n)
		for i := range fs {
			fs[i] = nums[i].(float64)
		}
		sort.Float64s(fs)
		for i := range fs {
			nums[i] = fs[i]
		}
	}
	d["nums"] = nums
	n = arrLenF(r, "strs")
	strs := make([]interface{}, n)
	for i := range strs {
		strs[i] = str(r)
	}
	d["strs"] = strs
	n = arrLenF(r, "objs")
	objs := make([]interface{}, n)
	sortedK := r.Chance(1, 6)
	for i := range objs {
		o := map[string]interface{}{"k": num(r), "s": str(r)}
		if sortedK {
			o["k"] = float64(i)
		}
		switch r.Intn(4) {
		case 0:
			o["t"] = nil
		case 1:
			o["t"] = []interface{}{}
		default:
			t := make([]interface{}, 1+r.Intn(3))
			for j := range t {
				t[j] = num(r)
			}
			o["t"] = t
		}
		objs[i] = o
	}
	d["objs"] = objs
	n = 2 + r.Intn(6)
	mixed := make([]interface{}, n)
	bad := r.Intn(n)
	for i := range mixed {
		if i == bad && r.Chance(5, 6) {
			switch r.Intn(3) {
			case 0:
				mixed[i] = map[string]interface{}{"k": "x"}
			case 1:
				mixed[i] = map[string]interface{}{"k": nil}
			default:
				mixed[i] = map[string]interface{}{"j": 1.0}
			}
		} else {
			mixed[i] = map[string]interface{}{"k": num(r)}
		}
	}
	d["mixed"] = mixed
	n = 2 + r.Intn(6)
	mixeds := make([]interface{}, n)
	bad = 1 + r.Intn(n-1)
	for i := range mixeds {
		if i == bad && r.Chance(5, 6) {
			switch r.Intn(3) {
			case 0:
				mixeds[i] = map[string]interface{}{"k": 1.0}
			case 1:
				mixeds[i] = map[string]interface{}{"k": nil}
			default:
				mixeds[i] = map[string]interface{}{"j": "x"}
			}
		} else {
			mixeds[i] = map[string]interface{}{"k": str(r)}
		}
	}
	d["mixeds"] = mixeds
	n = arrLen(r) % 8
	if r.wide1 {
		n = bigLen(r) % 300
	} else if r.wide2 && n == 0 {
		n = 2
	}
	if r.square > 0 {
		n = r.square + r.Intn(8)
	}
	nested := make([]interface{}, n)
	for i := range nested {
		if r.wide1 || r.wide2 {
			m := 1 + r.Intn(4)
			if r.wide2 {
				m = bigLen(r) % 300
				if r.wide1 && n*m > 20000 {
					m = 20000 / n // both levels long: keep one evaluation inside the step budget
				}
			}
			if r.square > 0 {
				m = r.square + r.Intn(8)
			}
			t := make([]interface{}, m)
			for j := range t {
				t[j] = num(r)
			}
			nested[i] = t
			continue
		}
		switch r.Intn(5) {
		case 0:
			nested[i] = []interface{}{}
		case 1:
			nested[i] = []interface{}{num(r), []interface{}{num(r)}}
		case 2:
			nested[i] = num(r)
		default:
			t := make([]interface{}, 1+r.Intn(4))
			for j := range t {
				t[j] = num(r)
			}
			nested[i] = t
		}
	}
	d["nested"] = nested
	n = arrLen(r) % 10
	sparse := make([]interface{}, n)
	for i := range sparse {
		switch r.Intn(4) {
		case 0, 1:
			sparse[i] = nil
		case 2:
			sparse[i] = num(r)
		default:
			sparse[i] = str(r)
		}
	}
	d["sparse"] = sparse
	n = arrLen(r) % 7
	so := make([]interface{}, n)
	for i := range so {
		if r.Chance(1, 2) {
			so[i] = nil
		} else {
			so[i] = map[string]interface{}{"k": num(r), "t": nil}
		}
	}
	d["sparseobjs"] = so
	// recs: records whose members are well-typed, with "nothing there" in some of them
	// (empty list, null number): per-element results are null for some elements and
	// values for the others, and a fault document makes exactly one element fail
	n = arrLenF(r, "recs")
	recs := make([]interface{}, n)
	for i := range recs {
		v := make([]interface{}, r.Intn(4))
		for j := range v {
			v[j] = num(r)
		}
		rec := map[string]interface{}{"v": v, "u": str(r)}
		if r.Chance(1, 3) {
			rec["w"] = nil
		} else {
			rec["w"] = num(r)
		}
		recs[i] = rec
	}
	d["recs"] = recs
	mkObj := func() interface{} {
		t := make([]interface{}, r.Intn(3))
		for j := range t {
			t[j] = num(r)
		}
		return map[string]interface{}{"k": num(r), "s": str(r), "t": t}
	}
	gn := 1 + r.Intn(4)
	if r.wide1 {
		gn = bigLen(r) % 200
	}
	grid := make([]interface{}, gn)
	for i := range grid {
		rn := r.Intn(5)
		if r.wide2 && !r.wide1 {
			rn = bigLen(r) % 200
		} else if r.wide2 {
			rn = 30 + r.Intn(12)
		}
		row := make([]interface{}, rn)
		for j := range row {
			row[j] = mkObj()
		}
		grid[i] = row
	}
	d["grid"] = grid
	var mkTree func(depth int) interface{}
	mkTree = func(depth int) interface{} {
		kids := []interface{}{}
		if depth < 3 {
			for i := r.Intn(3); i > 0; i-- {
				kids = append(kids, mkTree(depth+1))
			}
		}
		return map[string]interface{}{"name": str(r), "kids": kids}
	}
	d["tree"] = mkTree(0)
	o1 := map[string]interface{}{"a": num(r), "b": map[string]interface{}{"c": []interface{}{num(r), num(r)}}}
	for i := r.Intn(4); i > 0; i-- {
		o1[fmt.Sprintf("m%d", r.Intn(6))] = num(r)
	}
	d["o1"] = o1
	o2 := map[string]interface{}{"b": num(r), "z": []interface{}{num(r)}}
	for i := r.Intn(3); i > 0; i-- {
		o2[fmt.Sprintf("m%d", r.Intn(6))] = str(r)
	}
	d["o2"] = o2
	d["o3"] = map[string]interface{}{"a": map[string]interface{}{"x": num(r)}, "b": map[string]interface{}{"c": []interface{}{num(r)}, "d": map[string]interface{}{"e": map[string]interface{}{"f": num(r)}}, "g": map[string]interface{}{"h": str(r)}},
		"m0": map[string]interface{}{"p": map[string]interface{}{"q": num(r)}}}
	d["s"] = str(r) + "héllo"
	d["n"] = num(r) - 3.5
	d["t"] = r.Chance(1, 2)
	d["z"] = nil
	d["e"] = []interface{}{}
	d["eo"] = map[string]interface{}{}
	b, _ := json.Marshal(d)
	return string(b)
}

// ---------------------------------------------------------------- expressions

type G struct {
	R     *Rng
	depth int
}

func (g *G) deeper() func() { g.depth++; return func() { g.depth-- } }
func (g *G) leaf() bool     { return g.depth >= 4 || g.R.Chance(g.depth, 6) }

var litArrNum = []string{"`[3,1,2]`", "`[2,2,1,9,-1]`", "`[]`", "`[1]`", "`[5,4,3,2,1,0,9,8,7,6,15,14,13,12,11,10,19,18,17,16,25,24,23]`"}
var litArrStr = []string{"`[\"b\",\"a\",\"c\"]`", "`[\"x\"]`", "`[]`"}
var litArrObj = []string{"`[{\"k\":3,\"s\":\"c\"},{\"k\":1,\"s\":\"a\"},{\"k\":2,\"s\":\"b\"}]`", "`[{\"k\":2,\"s\":\"q\"},{\"k\":\"x\",\"s\":\"r\"},{\"k\":1,\"s\":\"p\"}]`", "`[]`"}
var litObj = []string{"`{\"x\":1}`", "`{\"a\":[3,1,2],\"q\":{\"r\":1}}`", "`{}`"}

func (g *G) ArrNum() string {
	defer g.deeper()()
	r := g.R
	if g.leaf() {
		return r.Pick([]string{"nums", "nums", "nums", "objs[*].k", "nested[0]", "o1.b.c", "objs[0].t", r.Pick(litArrNum), "e", "sparse", "sparse[*]"})
	}
	switch r.Intn(12) {
	case 0:
		return "sort(" + g.ArrNum() + ")"
	case 1:
		return "reverse(" + g.ArrNum() + ")"
	case 2:
		return g.ArrNum() + "[" + g.slice() + "]"
	case 3:
		return g.ArrNum() + "[?@ " + r.Pick([]string{">", "<", ">=", "<=", "==", "!="}) + " `" + fmt.Sprint(r.Intn(5)) + "`]"
	case 4:
		return "map(&" + g.NumOf("@") + ", " + g.ArrObj() + ")"
	case 5:
		return g.ArrObj() + "[*].k"
	case 6:
		return g.ArrArr() + "[]"
	case 7:
		return "to_array(" + g.ArrNum() + ")"
	case 8:
		return "[" + g.Num() + ", " + g.Num() + "]"
	case 9:
		return "(" + g.ArrNum() + " | " + g.arrNumStage() + ")"
	case 10:
		return "not_null(z, " + g.ArrNum() + ")"
	default:
		return "sort_by(" + g.ArrNum() + ", &@)"
	}
}

func (g *G) arrNumStage() string {
	r := g.R
	return r.Pick([]string{"sort(@)", "reverse(@)", "sort_by(@, &@)", "@[::-1]", "[?@ > `1`]", "map(&abs(@), @)", "@[1:]", "to_array(@)"})
}

func (g *G) slice() string {
	r := g.R
	p := func() string {
		if r.Chance(1, 3) {
			return ""
		}
		return fmt.Sprint(r.Intn(7) - 3)
	}
	st := ""
	if r.Chance(1, 2) {
		st = ":" + r.Pick([]string{"1", "2", "-1", "-2", "3"})
	}
	return p() + ":" + p() + st
}

func (g *G) ArrStr() string {
	defer g.deeper()()
	r := g.R
	if g.leaf() {
		return r.Pick([]string{"strs", "strs", "objs[*].s", "keys(o1)", r.Pick(litArrStr)})
	}
	switch r.Intn(8) {
	case 0:
		return "sort(" + g.ArrStr() + ")"
	case 1:
		return "reverse(" + g.ArrStr() + ")"
	case 2:
		return g.ArrStr() + "[" + g.slice() + "]"
	case 3:
		return "sort_by(" + g.ArrStr() + ", &@)"
	case 4:
		return "map(&s, " + g.ArrObj() + ")"
	case 5:
		return "keys(" + g.Obj() + ")"
	case 6:
		return g.ArrStr() + "[?@ != 'a']"
	default:
		return "map(&to_string(@), " + g.ArrNum() + ")"
	}
}

func (g *G) key() string {
	return g.R.Pick([]string{"k", "k", "s", "length(t || `[]`)", "to_string(k)", "abs(k)"})
}

func (g *G) ArrObj() string {
	defer g.deeper()()
	r := g.R
	if g.leaf() {
		return r.Pick([]string{"objs", "objs", "objs", "mixed", "mixeds", r.Pick(litArrObj)})
	}
	switch r.Intn(12) {
	case 0, 1, 2:
		return "sort_by(" + g.ArrObj() + ", &" + g.key() + ")"
	case 3:
		return "reverse(" + g.ArrObj() + ")"
	case 4:
		return g.ArrObj() + "[" + g.slice() + "]"
	case 5:
		return g.ArrObj() + "[?k " + r.Pick([]string{">", "<", ">=", "=="}) + " `" + fmt.Sprint(r.Intn(4)) + "`]"
	case 6:
		return "[" + g.Obj() + ", " + g.Obj() + "]"
	case 7:
		return g.ArrObj() + "[*].merge(@, " + r.Pick(litObj) + ")"
	case 8:
		return "map(&merge(@, {n: k}), " + g.ArrObj() + ")"
	case 9:
		return "(" + g.ArrObj() + " | " + r.Pick([]string{"sort_by(@, &k)", "sort_by(@, &s)", "reverse(@)", "@[::-1]", "[?k > `1`]", "to_array(@)"}) + ")"
	case 10:
		return "to_array(" + g.ArrObj() + ")"
	default:
		return "[max_by(" + g.ArrObj() + ", &k), min_by(" + g.ArrObj() + ", &k)]"
	}
}

func (g *G) ArrArr() string {
	defer g.deeper()()
	r := g.R
	if g.leaf() {
		return r.Pick([]string{"nested", "nested", "objs[*].t", "`[[3,1],[2],[]]`", "[nums, nums]"})
	}
	switch r.Intn(7) {
	case 0:
		return "reverse(" + g.ArrArr() + ")"
	case 1:
		return "sort_by(" + g.ArrArr() + ", &length(@))"
	case 2:
		return g.ArrArr() + "[" + g.slice() + "]"
	case 3:
		return "[" + g.ArrNum() + ", " + g.ArrNum() + "]"
	case 4:
		return "map(&reverse(@), " + g.ArrArr() + ")"
	case 5:
		return g.ArrArr() + "[*].sort(@)"
	default:
		return "values({a: " + g.ArrNum() + ", b: " + g.ArrNum() + "})"
	}
}

func (g *G) Obj() string {
	defer g.deeper()()
	r := g.R
	if g.leaf() {
		return r.Pick([]string{"o1", "o2", "o3", "o3.b", "objs[0]", "objs[-1]", "o1.b", r.Pick(litObj), "eo"})
	}
	switch r.Intn(8) {
	case 0, 1:
		return "merge(" + g.Obj() + ", " + g.Obj() + ")"
	case 2:
		return "{a: " + g.Any() + ", b: " + g.Any() + "}"
	case 3:
		return "max_by(" + g.ArrObj() + ", &" + g.key() + ")"
	case 4:
		return "min_by(" + g.ArrObj() + ", &k)"
	case 5:
		return g.ArrObj() + "[" + fmt.Sprint(r.Intn(5)-2) + "]"
	case 6:
		return "not_null(z, " + g.Obj() + ")"
	default:
		return "merge(" + g.Obj() + ", " + g.Obj() + ", " + g.Obj() + ")"
	}
}

func (g *G) Str() string {
	defer g.deeper()()
	r := g.R
	if g.leaf() {
		return r.Pick([]string{"s", "'raw'", "objs[0].s", "`\"lit\"`", "strs[0]"})
	}
	switch r.Intn(8) {
	case 0:
		return "join(', ', " + g.ArrStr() + ")"
	case 1:
		return "reverse(" + g.Str() + ")"
	case 2:
		return "to_string(" + g.Any() + ")"
	case 3:
		return "type(" + g.Any() + ")"
	case 4:
		return "max(" + g.ArrStr() + ")"
	case 5:
		return "min(" + g.ArrStr() + ")"
	case 6:
		return g.ArrStr() + "[0]"
	default:
		return "not_null(z, " + g.Str() + ")"
	}
}

// NumOf returns a numeric expression relative to an element expression.
func (g *G) NumOf(at string) string {
	r := g.R
	return r.Pick([]string{"k", "abs(k)", "length(t || `[]`)", "k", "ceil(k)"})
}

func (g *G) Num() string {
	defer g.deeper()()
	r := g.R
	if g.leaf() {
		return r.Pick([]string{"n", "`7`", "nums[0]", "nums[-1]", "objs[0].k", "o1.a"})
	}
	switch r.Intn(12) {
	case 0:
		return "length(" + g.Any() + ")"
	case 1:
		return "sum(" + g.ArrNum() + ")"
	case 2:
		return "avg(" + g.ArrNum() + ")"
	case 3:
		return "max(" + g.ArrNum() + ")"
	case 4:
		return "min(" + g.ArrNum() + ")"
	case 5:
		return "abs(" + g.Num() + ")"
	case 6:
		return "ceil(" + g.Num() + ")"
	case 7:
		return "floor(" + g.Num() + ")"
	case 8:
		return "to_number(" + g.Str() + ")"
	case 9:
		return g.ArrNum() + "[" + fmt.Sprint(r.Intn(5)-2) + "]"
	case 10:
		return "to_number(" + g.Num() + ")"
	default:
		return "max_by(" + g.ArrObj() + ", &k).k"
	}
}

func (g *G) Bool() string {
	defer g.deeper()()
	r := g.R
	switch r.Intn(8) {
	case 0:
		return "contains(" + g.ArrNum() + ", `2`)"
	case 1:
		return "contains(" + g.Str() + ", 'l')"
	case 2:
		return "starts_with(" + g.Str() + ", 'h')"
	case 3:
		return "ends_with(" + g.Str() + ", 'o')"
	case 4:
		return g.Num() + " " + r.Pick([]string{"<", ">", "==", "!=", "<=", ">="}) + " " + g.Num()
	case 5:
		return "!" + g.Any()
	case 6:
		return g.ArrNum() + " == " + g.ArrNum()
	default:
		return "t"
	}
}

func (g *G) Any() string {
	defer g.deeper()()
	r := g.R
	switch r.Intn(14) {
	case 0, 1:
		return g.ArrNum()
	case 2:
		return g.ArrStr()
	case 3, 4, 5:
		return g.ArrObj()
	case 6:
		return g.ArrArr()
	case 7:
		return g.Obj()
	case 8:
		return g.Str()
	case 9:
		return g.Num()
	case 10:
		return g.Bool()
	case 11:
		return g.Any() + " || " + g.Any()
	case 12:
		return g.Any() + " && " + g.Any()
	default:
		return r.Pick([]string{"o1.*", "*.t", "@.*", "values(o1)", "keys(o2)", "objs[].t[]", "z", "missing.x", "nested[][]", "[objs[0], sort_by(objs, &k)[0]]",
			"{a: nums, b: reverse(nums)}", "objs[*].[k, s]", "objs[*].{k: k, t: t}"})
	}
}

var constExprs = []string{
	"[`1`, `2`]", "{a: `1`, b: 'x'}", "[`1`]", "{kind: `\"item\"`}", "['a', 'b']", "[`[3,1,2]`]", "{a: `{\"x\":[2,1]}`}", "length(`[1,2]`)", "sort(`[3,1,2]`)", "sort_by(`[3,1,2]`, &@)",
	"merge(`{\"a\":1}`, `{\"b\":2}`)", "keys(`{\"a\":1,\"b\":2}`)", "values(`{\"a\":1,\"b\":2}`)", "reverse('abc')", "reverse(`[3,1,2]`)", "abs(`-1`)", "abs('x')", "sort(`[1,\"a\"]`)",
	"to_array(`1`)", "to_array('s')", "not_null(`null`, `1`)", "join('-', `[\"a\",\"b\"]`)", "max(`[1,3,2]`)", "type(`{}`)", "to_string(`[1]`)", "to_number('3')", "contains(`[1,2]`, `2`)", "`[1,2,3]`[?@ > `1`]",
	"`[3,1,2]`[0]", "`{\"a\":{\"b\":1}}`.a.b", "`[[1,2],[3]]`[]", "`[3,1,2]`[::-1]", "`{\"a\":1}`.*", "[`1`, 'a', `null`]", "{a: `null`}", "map(&@, `[1,2]`)", "[to_array(`1`), to_array(`2`)]", "avg(`[]`)",
}

// ConstEmbed places an expression that does not look at the document (literals, calls
// on literals) where the current node may be null, projected, or ordinary: an
// implementation that pre-evaluates constants must still honour "multi-select on null
// is null", "projection drops nulls" and error propagation.
func ConstEmbed(r *Rng) string {
	c := r.Pick(constExprs)
	dotable := strings.HasPrefix(c, "[") && !strings.HasPrefix(c, "[to_array") || strings.HasPrefix(c, "{") || (c[0] >= 'a' && c[0] <= 'z')
	pre := r.Pick([]string{"z", "missing", "missing.x", "objs[*].z", "objs[*].t", "objs[*]", "nums[*]", "o1", "o1.b", "@", "objs[0]", "nested[]", "e", "eo", "objs[?k > `100`]", "mixed[*].k", "n", "s"})
	switch r.Intn(6) {
	case 0:
		return c
	case 1, 2:
		if dotable {
			return pre + "." + c
		}
		return pre + " | " + c
	case 3:
		return pre + " | " + c
	case 4:
		return "[" + pre + ", " + c + "]"
	default:
		return pre + " && " + c + " || " + c
	}
}

// GuardFilters rely on && / || short-circuiting as a type guard.
var GuardFilters = []string{
	"objs[?type(k) == 'number' && abs(k) > `1`].s", "mixed[?type(k) == 'number' && k > `0`]", "strs[?type(@) == 'string' && starts_with(@, 'a')]", "mixeds[?type(k) == 'string' && starts_with(k, 'a')].k",
	"nums[?type(@) == 'number' && ceil(@) > `2`]", "nested[?type(@) == 'array' && length(@) > `1`]", "mixed[?type(k) != 'number' || abs(k) > `1`]", "objs[?type(t) == 'array' && length(t) > `0`].s",
	"mixeds[?type(k) == 'string' && length(k) > `1`]", "nested[?type(@) == 'number' && abs(@) > `3`]", "objs[?type(s) == 'string' && starts_with(s, 'a')].k", "objs[?type(k) == 'number' && floor(k) >= `0`]",
}

// Variant returns a near-duplicate spelling of an expression: white space inserted,
// doubled or removed at a random position (also inside quoted sections, also right
// after an escaped quote), a letter's case flipped, leading/trailing blanks. Two
// spellings that differ lexically must never be confused by a cache key.
func Variant(r *Rng, e string) string {
	if len(e) == 0 {
		return " "
	}
	switch r.Intn(7) {
	case 0:
		return " " + e
	case 1:
		return e + " "
	case 2, 3:
		k := r.Intn(len(e) + 1)
		return e[:k] + r.Pick([]string{" ", "  ", "\t", "\n"}) + e[k:]
	case 4:
		// double or drop an existing blank
		var idx []int
		for i := 0; i < len(e); i++ {
			if e[i] == ' ' {
				idx = append(idx, i)
			}
		}
		if len(idx) == 0 {
			return e + "  "
		}
		k := idx[r.Intn(len(idx))]
		if r.Chance(1, 2) {
			return e[:k] + " " + e[k:]
		}
		return e[:k] + e[k+1:]
	case 5:
		k := r.Intn(len(e))
		c := e[k]
		if c >= 'a' && c <= 'z' {
			return e[:k] + string(c-32) + e[k+1:]
		}
		if c >= 'A' && c <= 'Z' {
			return e[:k] + string(c+32) + e[k+1:]
		}
		return e
	default:
		// a blank right after a backslash-escaped quote, if there is one
		for _, q := range []string{"\\'", "\\\"", "\\`"} {
			if k := strings.Index(e, q); k >= 0 {
				return e[:k+2] + " " + e[k+2:]
			}
		}
		return e + "\t"
	}
}

// CaseFlip changes the case of the first letter of one identifier of the expression
// (nums -> Nums): a key that differs from a document key only in case must simply be
// missing.
func CaseFlip(r *Rng, e string) string {
	var starts []int
	inQuote := byte(0)
	for i := 0; i < len(e); i++ {
		c := e[i]
		if inQuote != 0 {
			if c == '\\' {
				i++
			} else if c == inQuote {
				inQuote = 0
			}
			continue
		}
		if c == '\'' || c == '"' || c == '`' {
			inQuote = c
			continue
		}
		isL := c >= 'a' && c <= 'z' || c >= 'A' && c <= 'Z'
		prevL := i > 0 && (e[i-1] >= 'a' && e[i-1] <= 'z' || e[i-1] >= 'A' && e[i-1] <= 'Z' || e[i-1] == '_' || e[i-1] >= '0' && e[i-1] <= '9')
		if isL && !prevL {
			// skip function names (followed by an opening parenthesis)
			j := i
			for j < len(e) && (e[j] >= 'a' && e[j] <= 'z' || e[j] >= 'A' && e[j] <= 'Z' || e[j] == '_' || e[j] >= '0' && e[j] <= '9') {
				j++
			}
			if j < len(e) && e[j] == '(' {
				continue
			}
			starts = append(starts, i)
		}
	}
	if len(starts) == 0 {
		return e
	}
	k := starts[r.Intn(len(starts))]
	c := e[k]
	if c >= 'a' && c <= 'z' {
		c -= 32
	} else {
		c += 32
	}
	return e[:k] + string(c) + e[k+1:]
}

// Chain draws a type-unaware postfix chain over the nested parts of the schema: index,
// slice, list projection, flatten, filter, object projection, field, pipe — in every
// order, e.g. grid[0][*].k, grid | [-1][*].t[], tree.kids[0].kids[*].name,
// nested[3][*][0], map(&[0][*].k, [grid]).
func Chain(r *Rng) string {
	e := r.Pick([]string{"grid", "grid", "grid", "nested", "nested", "tree.kids", "tree", "objs", "[grid, grid]", "objs[*].t", "o1", "@", "sparse", "sparse", "sparseobjs"})
	n := 1 + r.Intn(5)
	for i := 0; i < n; i++ {
		switch r.Intn(16) {
		case 0, 1, 2:
			e += "[" + fmt.Sprint(r.Intn(5)-2) + "]"
		case 3, 4, 5:
			e += "[*]"
		case 6:
			e += "[]"
		case 7:
			e += "[" + (&G{R: r}).slice() + "]"
		case 8:
			e += "[?" + r.Pick([]string{"k", "k > `1`", "@", "t", "kids", "length(@) > `1`", "s == 'a'", "name"}) + "]"
		case 9, 10:
			e += "." + r.Pick([]string{"k", "s", "t", "kids", "name", "a", "b"})
		case 11:
			e += ".*"
		case 12:
			e += " | " + r.Pick([]string{"[0]", "[-1]", "[*]", "[]", "@", "[0][*]", "[1:]"})
		case 13:
			e += "." + r.Pick([]string{"[k, s]", "{x: k, y: t}", "[@, @]"})
		case 14:
			e = r.Pick([]string{"map(&", "sort_by(", "max_by(", "min_by("}) + r.Pick([]string{"k", "t", "[0]", "length(@)", "name", "[0][*].k", "[*][0]"})
			if strings.HasPrefix(e, "map") {
				e += ", " + r.Pick([]string{"grid", "grid[0]", "nested", "[grid]", "tree.kids", "objs"}) + ")"
			} else {
				e = strings.Replace(e, "(", "("+r.Pick([]string{"grid", "grid[0]", "nested", "[grid]", "tree.kids", "objs"})+", &", 1) + ")"
			}
		default:
			e = r.Pick([]string{"reverse(", "to_array(", "not_null(", "length(", "sort(", "merge("}) + e + ")"
		}
	}
	return e
}

// Expr draws one expression: mostly well-typed, sometimes deliberately ill-typed so
// that error paths are reached after work has started.
func Expr(r *Rng) string {
	if r.Chance(1, 14) {
		return CaseFlip(r, exprInner(r))
	}
	return exprInner(r)
}

// RecsExprs: per-element results over the well-typed records are null for some elements
// and values for others; on a fault document one element fails.
var RecsExprs = []string{
	"recs[*].max(v)", "recs[*].min(v)", "recs[*].w", "recs[*].v[0]", "recs[*].v[-1]", "recs[*].[w, u]", "recs[*].sum(v)", "recs[?w].u", "recs[*].not_null(w)", "recs[*].not_null(w, v[0])",
	"sort_by(recs, &u)[*].w", "recs[*].sort(v)", "recs[*].sort(v)[0]", "max_by(recs, &u)", "recs[].v[]", "recs[*].v[*].abs(@)", "recs[*].abs(w || `0`)", "recs[*].(w && abs(w))", "recs[*].v[?@ > `1`]",
	"recs[*].{m: max(v), u: u}", "recs[*].v | [*][0]", "recs[*].max(v) | length(@)", "recs[*].w | [0]", "recs[?max(v) > `1`].u", "recs[?w > `1`].v[]", "recs[*].length(v)", "recs[*].reverse(v)[0]",
	"recs[*].to_number(u)", "recs[*].max([w, `0`][?@])", "recs[::2].w", "recs[::-1].max(v)", "recs[1:].v[0]", "map(&max(v), recs)", "map(&w, recs)", "recs[*].v[1:] | [*][0]", "sort_by(recs, &length(v))[*].w",
	"nested[*][*]", "nested[*][*].abs(@)", "nested[*].max(@)", "nested[*].sort(@)", "nested[*].length(@)", "nested[*][0]", "nested[*][-1]", "nested[] | length(@)", "nested[*][?@ > `2`]", "grid[*][*].t[0]", "grid[*][*].max(t)",
}

func exprInner(r *Rng) string {
	if r.Chance(1, 4) {
		return Chain(r)
	}
	if r.Chance(1, 9) {
		e := r.Pick(RecsExprs)
		if r.Chance(1, 4) {
			e = e + " | " + r.Pick([]string{"[0]", "[-1]", "length(@)", "@", "[@, @]", "to_array(@)", "[?@]"})
		}
		return e
	}
	if r.Chance(1, 8) {
		return ConstEmbed(r)
	}
	g := &G{R: r}
	e := g.Any()
	if r.Chance(1, 10) {
		// ill-typed wrapper
		e = r.Pick([]string{"sort_by(" + e + ", &k)", "sort(" + e + ")", "reverse(" + e + ")", "merge(" + e + ", o1)", "length(" + e + ")",
			"max_by(" + e + ", &k)", "join(',', " + e + ")", "keys(" + e + ")", "sum(" + e + ")", "map(&k, " + e + ")"})
	}
	if r.Chance(1, 4) {
		e = e + " | " + r.Pick([]string{"[0]", "[-1]", "length(@)", "type(@)", "to_string(@)", "@", "[@, @]", "not_null(@)", "to_array(@)"})
	}
	return e
}

// Systematic returns the function x argument-source x context table of Appendix B.
func Systematic() []string {
	base := []string{
		"abs(n)", "abs(s)", "avg(nums)", "avg(strs)", "avg(e)", "ceil(n)", "ceil(o1)", "floor(n)",
		"contains(nums, `2`)", "contains(s, 'l')", "contains(strs, 'a')", "contains(nested, `3`)", "contains(n, `1`)",
		"ends_with(s, 'o')", "ends_with(nums, 'o')", "starts_with(s, 'h')", "starts_with(s, n)",
		"join(',', strs)", "join(',', nums)", "join(n, strs)",
		"keys(o1)", "keys(nums)", "values(o1)", "values(s)", "length(s)", "length(nums)", "length(o1)", "length(n)",
		"map(&k, objs)", "map(&t, objs)", "map(&reverse(t), objs)", "map(&k, o1)", "map(&sort_by(@, &@), nested)",
		"max(nums)", "max(strs)", "max(objs)", "min(nums)", "min(strs)", "min(mixed)",
		"max_by(objs, &k)", "max_by(objs, &s)", "max_by(mixed, &k)", "max_by(objs, &t)", "min_by(objs, &k)", "min_by(objs, &s)", "min_by(mixed, &k)",
		"merge(o1, o3)", "merge(o3, o1)", "merge(o1.b, o3.b)", "merge(o3.b, o3.b.d)", "merge(`{\"b\":{\"c\":[0]}}`, o3)", "merge(o1, o2)", "merge(o1, `{\"x\":1}`)", "merge(`{\"x\":1}`, o1)", "merge(o1, nums)", "merge(o1)", "merge(`{\"x\":{\"y\":1}}`, `{\"z\":2}`)",
		"not_null(z, nums)", "not_null(z, z)", "not_null(objs)",
		"reverse(nums)", "reverse(objs)", "reverse(s)", "reverse(o1)", "reverse(`[3,1,2]`)",
		"sort(nums)", "sort(strs)", "sort(objs)", "sort(`[3,1,2]`)", "sort(`[\"b\",\"a\"]`)",
		"sort_by(objs, &k)", "sort_by(objs, &s)", "sort_by(mixed, &k)", "sort_by(nested, &length(@))", "sort_by(nums, &@)", "sort_by(strs, &@)",
		"sort_by(`[3,1,2]`, &@)", "sort_by(`[{\"k\":2},{\"k\":1}]`, &k)", "sort_by(`[{\"k\":2},{\"k\":\"x\"},{\"k\":1}]`, &k)", "sort_by(objs, &t)", "sort_by(objs, &missing)",
		"sort_by(objs, &length(t || `[]`))", "sort_by(objs[*].t, &length(@ || `[]`))",
		"sum(nums)", "sum(strs)", "to_array(nums)", "to_array(o1)", "to_array(n)", "to_array(`[3,1,2]`)",
		"to_number(s)", "to_number('12')", "to_number(n)", "to_number(nums)", "to_string(o1)", "to_string(nums)", "to_string(s)",
		"type(nums)", "type(o1)", "type(s)", "type(n)", "type(t)", "type(z)",
		"nums[::-1]", "nums[1:3]", "nums[::0]", "objs[::2]", "nested[]", "nested[][]", "objs[].t[]", "objs[*].t", "o1.*", "*.t", "@.*.a",
		"objs[?k > `1`]", "objs[?k > `1`].s", "objs[?s == 'a']", "nums[?@ > `1`]", "[nums, strs]", "{a: nums, b: o1}", "nums", "@", "o1.b.c", "objs[0]", "objs[-1].t",
		"`[3,1,2]`", "`{\"a\":[2,1]}`.a", "z", "missing", "nums || strs", "z || objs", "nums && objs", "!nums", "nums == nums", "objs[0] == objs[1]", "o1 != o2",
		"unknown_fn(nums)", "length(nums, nums)", "sort_by(objs)", "nums[0].x.y", "s[0]", "s.x", "n[?@]", "t.*",
		"grid[0][*].k", "grid[-1][*].s", "grid[0][*]", "grid | [0][*].k", "grid[*][0]", "grid[*][*].k", "grid[][*]", "grid[].k", "grid[0][*].t[]", "grid[1][?k > `1`]", "grid[0][1:].k", "grid[0][].k", "grid[0][::-1].s",
		"map(&[0][*].k, [grid])", "nested[3][*][0]", "nested[-1][*][0]", "nested[0][*]", "tree.kids[0].kids[*].name", "tree.kids[*].kids[*].name", "tree.kids[].kids[].name", "objs[0].t[*]", "objs[1].t[*].abs(@)", "[nums][0][*].abs(@)",
		"grid[0][*].merge(@, `{}`)", "grid[0][*].t", "grid[0][*].[k]", "grid[0][*].{a: k}", "sort_by(grid[0], &k)", "sort_by(grid, &length(@))", "grid[0] | sort_by(@, &s)", "reverse(grid[0])", "grid[*].sort_by(@, &k)", "grid[*][*].t[]",
		"z.{a: `1`}", "missing.[`1`, `2`]", "z.[`1`]", "objs[*].z.[`1`]", "objs[*].t.[`1`, `2`]", "nums[*].{x: 'c'}", "z | {a: `1`}", "z | [`1`]", "[`1`, `2`]", "{a: `1`}", "missing.{kind: `\"item\"`}", "objs[*].[`1`, `2`]",
		"z.length(`[1]`)", "z | length(`[1]`)", "objs[*].length(`[1]`)", "z.[k]", "z.{a: k}", "z.[@]", "objs[*].z.{a: @}",
		"objs[?type(k) == 'number' && abs(k) > `1`].s", "mixed[?type(k) == 'number' && k > `0`]", "strs[?type(@) == 'string' && starts_with(@, 'a')]", "mixeds[?type(k) == 'string' && starts_with(k, 'a')].k",
		"nums[?type(@) == 'number' && ceil(@) > `2`]", "nested[?type(@) == 'array' && length(@) > `1`]", "mixed[?type(k) != 'number' || abs(k) > `1`]", "objs[?t && length(t) > `1`].k", "objs[?type(t) == 'array' && length(t) > `0`].s",
		"mixeds[?type(k) == 'string' && length(k) > `1`]", "nested[?type(@) == 'number' && abs(@) > `3`]", "strs[?type(@) == 'string' && ends_with(@, 'a') && length(@) > `0`]",
		"sparse[*]", "sparse[]", "sparse[?@]", "sparse[*].k", "sparse[1:]", "sparse[::-1]", "sparseobjs[*]", "sparseobjs[*].k", "sparseobjs[].k", "sparseobjs[?@].k", "sparseobjs[?k > `1`]", "sort_by(sparseobjs[?@], &k)",
		"not_null(sparse[1], sparse[0])", "sparse | [*]", "[sparse, sparse][*][*]", "sparse[*] | [0]", "map(&@, sparse)", "sparseobjs[*].t", "reverse(sparse)", "to_array(sparse)[*]", "sparse[*][0]", "length(sparse[*])",
		"contains(s, `1`)", "sort_by(mixeds, &k)", "max_by(mixeds, &k)", "min_by(mixeds, &k)", "max_by(objs, &abs(s))", "min_by(objs, &abs(s))", "sort_by(objs, &abs(s))",
		"min_by(objs, &s)", "max_by(objs, &s)", "min_by(mixed, &abs(k))", "max_by(mixed, &abs(k))", "objs[?abs(s)]", "objs[?k].abs(s)", "objs[*].abs(s)", "abs(s).*", "*.abs(@)", "o1.*.abs(@)",
		"sort_by(mixeds, &abs(k))", "sort_by(strs, &abs(@))", "max(e)", "min(e)", "map(&abs(@), strs)", "nums[?abs(s)]", "[abs(s)]", "{a: abs(s)}", "abs(s) || nums", "abs(s) && nums", "!abs(s)", "abs(s) | nums", "abs(s) == nums", "nums[abs(s)]",
		"sort_by(`[[\"a\"],[1],[\"b\"]]`, &join('', @))", "max_by(`[[\"a\"],[1],[\"b\"]]`, &join('', @))", "min_by(`[[\"a\"],[1],[\"b\"]]`, &join('', @))",
		"sort_by(`[[1],[\"a\"],[2]]`, &sum(@))", "max_by(`[[1],[\"a\"],[2]]`, &sum(@))", "min_by(`[[1],[\"a\"],[2]]`, &sum(@))", "to_string(avg(e))", "to_string([avg(e)])",
		"max_by(strs, &@)", "min_by(strs, &@)", "max_by(mixeds, &length(k))", "sort_by(mixeds, &length(k))",
	}
	base = append(base, RecsExprs...)
	var out []string
	seen := map[string]bool{}
	add := func(e string) {
		if !seen[e] {
			seen[e] = true
			out = append(out, e)
		}
	}
	for _, b := range base {
		add(b)
	}
	arrayish := []string{"nums", "strs", "objs", "mixed", "nested", "`[3,1,2]`", "`[{\"k\":2,\"s\":\"b\"},{\"k\":1,\"s\":\"a\"}]`", "objs[*].t", "objs[?k > `0`]", "nums[::-1]", "nested[]", "[nums[0], nums[1], nums[2]]", "values(o1)", "keys(o1)", "to_array(nums)", "reverse(nums)", "sort(nums)", "sort_by(objs, &k)", "map(&@, objs)", "not_null(z, objs)"}
	fnArr := []string{"sort_by(%s, &k)", "sort_by(%s, &s)", "sort_by(%s, &@)", "sort_by(%s, &length(@))", "sort(%s)", "reverse(%s)", "max_by(%s, &k)", "min_by(%s, &k)", "map(&k, %s)", "to_array(%s)", "length(%s)", "max(%s)", "min(%s)", "sum(%s)", "avg(%s)", "join('-', %s)", "contains(%s, `1`)", "not_null(%s)", "to_string(%s)", "type(%s)", "%s[]", "%s[::-1]", "%s[?@]", "%s[*]", "to_number(%s)", "keys(%s)", "merge(%s)"}
	for _, a := range arrayish {
		for _, f := range fnArr {
			e := fmt.Sprintf(f, a)
			add(e)
		}
	}
	ctx := []string{"%s", "@ | %s", "[%s, %s]", "{a: %s, b: nums}", "[objs[0], (%s)]", "(%s) | [0]", "(%s) | type(@)", "[%s][0]", "not_null(z, %s)", "(%s) || z", "z || (%s)", "t && (%s)"}
	core := []string{"sort_by(objs, &k)", "sort_by(objs, &s)", "sort_by(mixed, &k)", "sort_by(`[3,1,2]`, &@)", "sort_by(nums, &@)", "reverse(objs)", "sort(nums)", "merge(o1, o2)", "to_array(nums)", "map(&t, objs)", "nested[]", "objs[?k > `1`]", "max_by(objs, &k)", "values(o1)", "o1.*", "nums[::-1]"}
	for _, c := range core {
		for _, x := range ctx {
			add(strings.Replace(x, "%s", c, -1))
		}
	}
	under := []string{"nested[*].reverse(@)", "nested[*].sort_by(@, &@)", "nested[*].sort(@)", "objs[*].merge(@, `{\"x\":1}`)", "objs[*].t.reverse(@)", "objs[*].sort_by(t, &@)",
		"objs[?sort_by(t, &@)]", "objs[?k > `1`] | sort_by(@, &k)", "nums[::-1] | sort(@)", "nested[] | reverse(@)", "o1.* | sort_by(@, &to_string(@))", "*.t | [0]",
		"map(&sort_by(t || `[]`, &@), objs)", "sort_by(objs, &length(sort_by(t || `[]`, &@)))", "max_by(objs, &sum(sort_by(t || `[]`, &@)))",
		"[sort_by(objs, &k), objs]", "[objs, sort_by(objs, &k)]", "[sort_by(objs, &k)[0], objs[0]]", "{a: objs[0].k, b: sort_by(objs, &k)[0].k, c: objs[0].k}",
		"`[3,1,2]` | [@[0], sort_by(@, &@)[0]]", "[`[3,1,2]`[0], sort_by(`[3,1,2]`, &@)[0]]", "sort_by(sort_by(objs, &s), &k)", "reverse(sort_by(objs, &k))", "sort_by(reverse(objs), &k)",
		"sort_by(objs[*], &k)", "sort_by(objs[?k], &k)", "sort_by(objs[:], &k)", "sort_by(to_array(objs), &k)", "sort_by(not_null(objs), &k)", "sort_by(max_by([objs, objs], &length(@)), &k)",
		"sort_by(objs[0].t, &@)", "sort_by(objs[1].t, &@)", "sort_by(nested[0], &@)", "sort_by(o1.b.c, &@)", "sort_by(o2.z, &@)", "sort_by(@.objs, &k)", "sort_by(values({a: objs})[0], &k)", "sort_by(merge({a: objs}).a, &k)",
	}
	for _, u := range under {
		add(u)
	}
	return out
}

// Deep builds an expression nested d levels in the given shape; valid shapes parse and
// evaluate (to null on most documents), the "open-*" shapes fail at the end of input.
func Deep(shape string, d int) string {
	switch shape {
	case "paren":
		return strings.Repeat("(", d) + "a" + strings.Repeat(")", d)
	case "index":
		return "a" + strings.Repeat("[0]", d)
	case "field":
		return "a" + strings.Repeat(".b", d)
	case "not":
		return strings.Repeat("!", d) + "a"
	case "call":
		return strings.Repeat("not_null(", d) + "a" + strings.Repeat(")", d)
	case "list":
		return strings.Repeat("[", d) + "a" + strings.Repeat("]", d)
	case "pipe":
		return "a" + strings.Repeat(" | a", d)
	case "or":
		return "a" + strings.Repeat(" || a", d)
	case "open-paren":
		return strings.Repeat("(", d) + "a"
	case "open-list":
		return strings.Repeat("[", d)
	case "open-call":
		return strings.Repeat("f(", d) + "a"
	}
	return "a"
}

var DeepShapes = []string{"paren", "index", "field", "not", "call", "list", "pipe", "or"}
var DeepOpenShapes = []string{"open-paren", "open-list", "open-call"}

// DepthLimits are the round numbers an implementation is likely to pick for a nesting guard.
var DepthLimits = []int{32, 64, 100, 128, 200, 250, 256, 500, 512, 1000, 1024, 2000, 2048, 4096}

// DeepValid draws a deep but valid expression (depth 40..700).
func DeepValid(r *Rng) string {
	return Deep(DeepShapes[r.Intn(len(DeepShapes))], []int{40, 90, 130, 200, 260, 300, 400, 520, 700}[r.Intn(9)])
}

// DeepExprs are pathologically nested inputs (valid and invalid).
var DeepExprs = []string{
	strings.Repeat("[", 700), strings.Repeat("(", 700), strings.Repeat("(", 300) + "a" + strings.Repeat(")", 300), strings.Repeat("(", 300) + "a" + strings.Repeat(")", 299),
	"a" + strings.Repeat(".b", 400), "a" + strings.Repeat("[0]", 400), strings.Repeat("!", 500) + "a", strings.Repeat("&", 400) + "a", strings.Repeat("f(", 300) + "a" + strings.Repeat(")", 300),
	strings.Repeat("f(", 300) + "a", strings.Repeat("[a, ", 300), strings.Repeat("{a: ", 300), "a" + strings.Repeat(" | b", 400), "a" + strings.Repeat(" || b", 400), strings.Repeat("[?", 300),
}

// BrokenExprs are expressions that fail to compile, used as failing operations.
var BrokenExprs = []string{"", "foo.", "foo[", "foo(", "a.b.[", "foo(a,", "'abc", "'a\\'b", "\"abc", "`[1,2", "`{bad json}`", "a ! b", "a = b", "[?", "{a:", "{a: b", "a..b", "a[1:2:3:4]", "#", "a | | b", "&", "sort_by(objs, &", "\"\\u12\"", "a.'x'", "\"foo\"(x)", "a[*", "*[", "[*].a.[", "a||", "a&&", "!",
	"a[99999999999999999999]", "a[1:99999999999999999999]", "[99999999999999999999]", "foo(a b)", "foo(a,)", "foo(,a)", "[a b]", "[a,]", "{a: b c}", "{a: b,}", "{\"a\" b}", "a[?b c]", "a[?b].", "a[?b].[", "a.{", "a.&b", "a[*].&b",
	"a.\"b\"(c)", "a[?", "a[?b", "[?a]b", "*.[", "*.{", "a.*.[", "(a", "(a b)", "!(", "&(", "a | [", "a[].[", "a[::]x", "a[1 2]", "a[:x]", "a.1", "a.@", "@@", "a `1`", "`1` a", "'x' 'y'", "[]{a: b}", "[]!a", "a[]{b: c}", "a[*]!b", "a[?b]{c: d}", "a.*!b"}
