package main

import (
	"encoding/json"
	"fmt"
	"math"
	"reflect"
	"sort"
	"strings"
	"unsafe"

	"verifharness/simrt"
)

// DocSpec describes a document so that a replay file can rebuild it exactly,
// including the spare capacity of its slices.
type DocSpec struct {
	Kind    string `json:"kind"`           // "json" | "typed"
	Text    string `json:"text,omitempty"` // JSON text
	Name    string `json:"name,omitempty"` // typed document name
	CapSeed uint64 `json:"cap_seed"`
	GoNums  uint64 `json:"go_nums,omitempty"` // != 0: some integral number leaves become int / int64 / float32 / json.Number (hand-built documents)
}

const spareSentinel = "\x00SPARE"

// buildJSON decodes text and re-homes every array into a slice with seeded spare
// capacity filled with a sentinel, so that a write past len (append into the
// caller's backing array) is visible to the capacity-covering hash.
func buildJSON(text string, capSeed uint64) (interface{}, error) {
	var v interface{}
	if err := json.Unmarshal([]byte(text), &v); err != nil {
		return nil, err
	}
	ctr := uint64(0)
	var re func(v interface{}) interface{}
	re = func(v interface{}) interface{} {
		switch x := v.(type) {
		case []interface{}:
			ctr++
			extra := 0
			if capSeed != 0 {
				switch simrt.Mix(capSeed, ctr) % 4 {
				case 1:
					extra = 1
				case 2:
					extra = 3
				}
			}
			s := make([]interface{}, len(x), len(x)+extra)
			for i, e := range x {
				s[i] = re(e)
			}
			sp := s[:cap(s)]
			for i := len(x); i < len(sp); i++ {
				sp[i] = spareSentinel
			}
			return s
		case map[string]interface{}:
			keys := make([]string, 0, len(x))
			for k := range x {
				keys = append(keys, k)
			}
			sort.Strings(keys) // the capacity counter must not depend on Go's map order
			for _, k := range keys {
				x[k] = re(x[k])
			}
			return x
		}
		return v
	}
	return re(v), nil
}

// goNums turns some integral float64 leaves into other Go number types, as in a document
// a caller built by hand instead of decoding JSON. Containers are edited in place (they
// were freshly built); the choice depends only on (seed, visiting order with sorted keys).
func goNums(v interface{}, seed uint64) interface{} {
	ctr := uint64(0)
	var re func(v interface{}) interface{}
	re = func(v interface{}) interface{} {
		switch x := v.(type) {
		case float64:
			ctr++
			if x != float64(int64(x)) || x > 1e15 || x < -1e15 {
				return v
			}
			switch simrt.Mix(seed, ctr) % 6 {
			case 0:
				return int(x)
			case 1:
				return int64(x)
			case 2:
				return float32(x)
			case 3:
				return json.Number(fmt.Sprintf("%d", int64(x)))
			}
			return v
		case []interface{}:
			full := x[:cap(x)]
			for i := range x {
				full[i] = re(x[i])
			}
			return x
		case map[string]interface{}:
			keys := make([]string, 0, len(x))
			for k := range x {
				keys = append(keys, k)
			}
			sort.Strings(keys)
			for _, k := range keys {
				x[k] = re(x[k])
			}
			return x
		}
		return v
	}
	return re(v)
}

// ---- typed documents (reflection paths of the interpreter) ----

// TTag is embedded in TObj: its fields are promoted (index paths of length 2).
// Struct tags: the unchanged library ignores them; a tree that learns to honour `json`
// tags (or any other per-type field index) gets names that differ from the lower-cased
// field name, two crossed names and a hidden field to build its index from.
type TTag struct {
	Tag string  `json:"tag"`
	W   float64 `json:"weight,omitempty"`
}

type TObj struct {
	K float64 `json:"k"`
	S string  `json:"s"`
	T []int   `json:"t,omitempty"`
	TTag
}

type TDoc struct {
	Nums  []float64
	Strs  []string
	Objs  []TObj
	PObjs []*TObj
	P     *TObj
	NilP  *TObj
	M     map[string]interface{}
	Grid  [][]int
	Any   []interface{}
	S     string
	N     float64
	Full  string `json:"full_name"`
	X1    string `json:"x2"`
	X2    string `json:"x1"`
	Hid   string `json:"-"`
}

func buildTyped(name string, seed uint64) interface{} {
	mk := func() *TDoc {
		if seed > 1 {
			return mkTDocSeeded(seed)
		}
		return &TDoc{
			Nums:  []float64{3, 1, 2},
			Strs:  []string{"b", "a"},
			Objs:  []TObj{{3, "c", []int{1}, TTag{"t" + "c", 1}}, {1, "a", []int{2, 3}, TTag{"t" + "a", 1}}, {2, "b", nil, TTag{"t" + "b", 1}}},
			PObjs: []*TObj{{2, "y", nil, TTag{"t" + "y", 1}}, {1, "x", []int{9}, TTag{"t" + "x", 1}}},
			P:     &TObj{7, "p", []int{4, 5}, TTag{"t" + "p", 1}},
			M:     map[string]interface{}{"a": []interface{}{3.0, 1.0, 2.0}, "b": map[string]interface{}{"c": 1.0}},
			Grid:  [][]int{{1, 2}, {}, {3}},
			Any:   []interface{}{map[string]interface{}{"k": 2.0}, map[string]interface{}{"k": 1.0}, map[string]interface{}{"k": 3.0}},
			S:     "héllo",
			N:     -3.5,
			Full:  "Ada Lovelace", X1: "one", X2: "two", Hid: "hidden",
		}
	}
	switch name {
	case "tdoc-ptr":
		return mk()
	case "tdoc-val":
		return *mk()
	case "tdoc-shadow":
		// function-local types print as main.TObj / main.TDoc too, with another layout:
		// anything keyed by the type's NAME confuses them with the package-level types
		type TObj struct {
			T []int
			S float64
			K string
		}
		type TDoc struct {
			N     string
			S     float64
			Objs  []TObj
			P     *TObj
			Nums  []string
			Strs  []float64
			NilP  *TObj
			PObjs []*TObj
		}
		return &TDoc{N: "invoice", S: 42, Objs: []TObj{{[]int{7}, 1.5, "kk"}, {nil, 2.5, "ll"}}, P: &TObj{[]int{1}, 9, "pk"}, Nums: []string{"x", "y"}, Strs: []float64{3, 1, 2},
			PObjs: []*TObj{{[]int{5}, 3, "q"}}}
	case "tslice":
		return []TObj{{3, "c", []int{1}, TTag{"t" + "c", 1}}, {1, "a", nil, TTag{"t" + "a", 1}}, {2, "b", []int{5, 4}, TTag{"t" + "b", 1}}}
	case "tmap":
		return map[string]interface{}{"objs": []TObj{{2, "b", nil, TTag{"t" + "b", 1}}, {1, "a", nil, TTag{"t" + "a", 1}}}, "ptr": mk(), "nums": []float64{2, 1}, "gen": []interface{}{3.0, 1.0, 2.0}}
	}
	panic("unknown typed doc " + name)
}

// mkTDocSeeded: typed document with seeded slice lengths (0..40: past the thresholds
// at which an implementation may switch strategy) and values.
func mkTDocSeeded(seed uint64) *TDoc {
	r := seed
	next := func() uint64 { r = simrt.Mix(r, 0x7d); return r }
	n := func() int {
		switch next() % 6 {
		case 0:
			return int(next() % 3)
		case 1, 2:
			return 3 + int(next()%6)
		case 3:
			return 9 + int(next()%9)
		default:
			return 17 + int(next()%24)
		}
	}
	d := &TDoc{S: "héllo", N: -3.5, Full: "Ada Lovelace", X1: "one", X2: "two", Hid: "hidden", P: &TObj{7, "p", []int{4, 5}, TTag{"t" + "p", 1}}}
	d.Nums = make([]float64, n())
	for i := range d.Nums {
		d.Nums[i] = float64(next() % 50)
	}
	d.Strs = make([]string, n())
	for i := range d.Strs {
		d.Strs[i] = string(rune('a' + next()%20))
	}
	d.Objs = make([]TObj, n())
	for i := range d.Objs {
		d.Objs[i] = TObj{float64(next() % 30), string(rune('a' + next()%20)), []int{int(next() % 9)}, TTag{string(rune('p' + next()%5)), float64(next() % 7)}}
	}
	d.PObjs = make([]*TObj, n()%8)
	for i := range d.PObjs {
		d.PObjs[i] = &TObj{float64(next() % 30), string(rune('a' + next()%20)), nil, TTag{"pt", 2}}
	}
	// nil pointers where another document of the same type has a value (and the other
	// way round): per-type memos must not remember what one VALUE looked like
	nilBits := next()
	if nilBits%4 == 0 {
		d.P = nil
	}
	if nilBits&16 != 0 {
		d.NilP = &TObj{9, "was-nil", []int{1}, TTag{"tn", 3}}
	}
	for i := range d.PObjs {
		if (nilBits>>(8+uint(i)))&3 == 0 || (i == 0 && nilBits&32 != 0) {
			d.PObjs[i] = nil
		}
	}
	d.Grid = make([][]int, n()%7)
	for i := range d.Grid {
		d.Grid[i] = make([]int, next()%5)
		for j := range d.Grid[i] {
			d.Grid[i][j] = int(next() % 9)
		}
	}
	a := make([]interface{}, n())
	for i := range a {
		a[i] = float64(next() % 40)
	}
	d.M = map[string]interface{}{"a": a, "b": map[string]interface{}{"c": 1.0}}
	d.Any = make([]interface{}, n())
	for i := range d.Any {
		d.Any[i] = map[string]interface{}{"k": float64(next() % 30)}
	}
	return d
}

var typedDocNames = []string{"tdoc-ptr", "tdoc-val", "tslice", "tmap", "tdoc-shadow"}

// typedFnExprs: every array-taking built-in on every typed (non-[]interface{}) field.
func init() {
	fields := []string{"nums", "strs", "objs", "pObjs", "grid", "any", "m.a", "@", "ptr.nums", "ptr.strs", "gen", "objs[*].t", "objs[0].t"}
	fns := []string{"sort(%s)", "reverse(%s)", "sort_by(%s, &@)", "sort_by(%s, &k)", "max(%s)", "min(%s)", "sum(%s)", "avg(%s)", "join(',', %s)", "length(%s)", "to_array(%s)", "map(&@, %s)", "max_by(%s, &k)", "min_by(%s, &@)",
		"contains(%s, `1`)", "not_null(%s)", "to_string(%s)", "type(%s)", "%s[]", "%s[::-1]", "%s[::2]", "%s[1::3]", "%s[1:20:3]", "%s[:5]", "%s[2:]", "%s[?@]", "%s[*]", "%s | sort(@)", "[%s, %s] | [0] | sort(@)", "%s[*] | sort(@)", "keys(%s)", "merge(%s)",
		// the same field read before, inside and after a call that might reorder it
		"[%s[0], sort(%s)[0], %s[-1]]", "[%s[0], sort_by(%s, &@)[0], %s[-1]]", "[%s, reverse(%s), %s]", "[%s[0], max(%s), min(%s), %s[0]]", "[%s[0], sort_by(%s, &k)[0], %s[0]]", "[join('', %s), sort(%s), join('', %s)]"}
	for _, f := range fields {
		for _, fn := range fns {
			typedExprs = append(typedExprs, strings.Replace(fn, "%s", f, -1))
		}
	}
}

var typedExprs = []string{
	"nums[0]", "nums[-1]", "nums[1:]", "nums[::-1]", "nums[]", "nums[*]", "strs[0]", "objs[*].k", "objs[*].s", "objs[?k > `1`].s", "objs[0].t", "objs[1:].s",
	"pObjs[*].s", "pObjs[0].k", "p.s", "p.t[0]", "nilP.s", "nilP", "m.a", "sort_by(m.a, &@)", "m.b.c", "any[*].k", "sort_by(any, &k)", "sort_by(any, &k)[0]", "reverse(any)", "max_by(any, &k)",
	"s", "n", "abs(n)", "length(s)", "length(nums)", "objs[].t[]", "[nums, strs]", "{a: p, b: objs[0]}", "@", "to_array(@)", "type(@)", "not_null(nilP, p).s",
	"[*].k", "[?k > `1`]", "[0].t", "[::-1]", "[]", "@[0].s", "length(@)",
	"grid[]", "grid[][]", "grid[0]", "grid[*][0]", "grid[?@]", "to_number(nums)", "type(nums)", "type(p)", "!p", "!nilP", "!nums", "!objs", "pObjs[?@]", "pObjs[?k > `1`].s", "objs[?abs(s)]", "objs[?k].abs(s)",
	"objs[*].abs(s)", "nums[?@ > `1`]", "strs[?@ == 'a']", "p || nilP", "nilP || p", "nilP && p", "length(objs)", "reverse(objs)", "sort_by(objs, &k)", "max_by(objs, &k)", "map(&k, objs)", "to_array(nums)", "not_null(nilP, nums)",
	"objs[*].tag", "objs[0].tag", "p.tag", "p.w", "objs[*].w", "pObjs[*].tag", "objs[?w > `0`].tag", "sort_by(objs, &w)", "objs[*].tTag", "objs[*].tTag.tag", "p.tTag", "[*].tag", "[0].w", "ptr.p.tag", "objs[*].[k, tag]", "objs[*].{t: tag, k: k}",
	"ports == `[80, 443]`", "nums == nums", "objs[0] == objs[1]", "nums[0] == `3`", "nums != strs", "[?k == `2`]", "any[?k == `2`]", "m.a == `[3,1,2]`", "any == any", "n == `-3.5`", "objs[?k >= `2`].s",
	"full_name", "full", "x1", "x2", "hid", "[x1, x2, full_name, full, hid]", "objs[*].weight", "p.weight", "ptr.full_name", "ptr.x1", "{a: x1, b: x2}", "objs[?weight > `0`].tag",
	"objs[*].k", "ptr.p.s", "ptr.objs[*].s", "nums[0]", "gen | sort_by(@, &@)", "sort_by(gen, &@)", "reverse(gen)", "sort(gen)", "reverse(nums)", "to_string(ptr.p)",
}

func (d DocSpec) Build() interface{} {
	switch d.Kind {
	case "json":
		v, err := buildJSON(d.Text, d.CapSeed)
		if err != nil {
			panic(fmt.Sprintf("doc text does not decode: %v", err))
		}
		if d.GoNums != 0 {
			v = goNums(v, d.GoNums)
		}
		return v
	case "typed":
		return buildTyped(d.Name, d.CapSeed)
	}
	panic("bad doc kind " + d.Kind)
}

// ---- hashing (runs inside the yield hook: norace, no synchronisation added) ----

//go:norace
func hmix(h, v uint64) uint64 {
	h ^= v
	h *= 0x9e3779b97f4a7c15
	h ^= h >> 32
	return h
}

//go:norace
func hashStr(s string) uint64 {
	h := uint64(0xcbf29ce484222325)
	for i := 0; i < len(s); i++ {
		h ^= uint64(s[i])
		h *= 0x100000001b3
	}
	return h
}

// hashDoc covers every slice up to its capacity and the identity (data pointer) of
// every container and string, so a write that is undone later, a write past len and
// the replacement of a container by an equal one are all visible.
//
//go:norace
//go:nocheckptr
func hashDoc(v interface{}) uint64 { return hashDocD(v, 0) }

//go:norace
//go:nocheckptr
func hashDocD(v interface{}, d int) uint64 {
	if d > maxDepth {
		return 0x99
	}
	switch x := v.(type) {
	case nil:
		return 0x11
	case bool:
		if x {
			return 0x22
		}
		return 0x33
	case float64:
		return hmix(0x44, math.Float64bits(x))
	case string:
		return hmix(hmix(0x55, uint64(uintptr(unsafe.Pointer(unsafe.StringData(x))))), hashStr(x))
	case []interface{}:
		h := hmix(0x66, uint64(len(x)))
		h = hmix(h, uint64(cap(x)))
		h = hmix(h, uint64(uintptr(unsafe.Pointer(unsafe.SliceData(x)))))
		full := x[:cap(x)]
		for i := 0; i < len(full); i++ {
			h = hmix(h*31+uint64(i), hashDocD(full[i], d+1))
		}
		return h
	case map[string]interface{}:
		h := hmix(0x77, uint64(len(x)))
		h = hmix(h, uint64(uintptr(*(*unsafe.Pointer)(unsafe.Pointer(&x)))))
		var sum uint64
		for k, e := range x {
			sum += hmix(hashStr(k), hashDocD(e, d+1))
		}
		return hmix(h, sum)
	}
	return hashReflect(reflect.ValueOf(v), d)
}

//go:norace
func hashReflect(rv reflect.Value, depth int) uint64 {
	if depth > maxDepth || !rv.IsValid() {
		return 0x88
	}
	switch rv.Kind() {
	case reflect.Ptr:
		if rv.IsNil() {
			return 0x99
		}
		return hmix(hmix(0xaa, uint64(rv.Pointer())), hashReflect(rv.Elem(), depth+1))
	case reflect.Interface:
		if rv.IsNil() {
			return 0x11
		}
		if rv.CanInterface() {
			return hashDocD(rv.Interface(), depth+1)
		}
		return hashReflect(rv.Elem(), depth+1)
	case reflect.Struct:
		h := uint64(0xbb)
		for i := 0; i < rv.NumField(); i++ {
			h = hmix(h*31, hashReflect(rv.Field(i), depth+1))
		}
		return h
	case reflect.Slice:
		if rv.IsNil() {
			return 0xcc
		}
		h := hmix(hmix(0xdd, uint64(rv.Len())), uint64(rv.Pointer()))
		h = hmix(h, uint64(rv.Cap()))
		full := rv.Slice(0, rv.Cap())
		for i := 0; i < full.Len(); i++ {
			h = hmix(h*31+uint64(i), hashReflect(full.Index(i), depth+1))
		}
		return h
	case reflect.Array:
		h := uint64(0xde)
		for i := 0; i < rv.Len(); i++ {
			h = hmix(h*31, hashReflect(rv.Index(i), depth+1))
		}
		return h
	case reflect.Map:
		if rv.IsNil() {
			return 0xee
		}
		h := hmix(hmix(0xef, uint64(rv.Len())), uint64(rv.Pointer()))
		var sum uint64
		it := rv.MapRange()
		for it.Next() {
			sum += hmix(hashReflect(it.Key(), depth+1), hashReflect(it.Value(), depth+1))
		}
		return hmix(h, sum)
	case reflect.String:
		return hmix(0x55, hashStr(rv.String()))
	case reflect.Bool:
		if rv.Bool() {
			return 0x22
		}
		return 0x33
	case reflect.Int, reflect.Int8, reflect.Int16, reflect.Int32, reflect.Int64:
		return hmix(0x45, uint64(rv.Int()))
	case reflect.Uint, reflect.Uint8, reflect.Uint16, reflect.Uint32, reflect.Uint64, reflect.Uintptr:
		return hmix(0x46, rv.Uint())
	case reflect.Float32, reflect.Float64:
		return hmix(0x44, math.Float64bits(rv.Float()))
	}
	return 0x12
}

// ---- copies and comparison ----

// deepCopy copies JSON-shaped data; other values (typed documents, expression
// references) are returned as they are.
func deepCopy(v interface{}) interface{} { return deepCopyD(v, 0) }

// maxDepth bounds every recursive walk of the harness: a defective library can hand
// back a self-referential value, and a stack overflow cannot be recovered in Go.
// Legitimate values are as deep as the expressions that build them (the depth ladders go to 4101).
const maxDepth = 6000

const depthSentinel = "\x00<value nested deeper than 6000 levels or cyclic>"

func deepCopyD(v interface{}, d int) interface{} {
	if d > maxDepth {
		return depthSentinel
	}
	switch x := v.(type) {
	case []interface{}:
		if x == nil {
			return x
		}
		s := make([]interface{}, len(x))
		for i, e := range x {
			s[i] = deepCopyD(e, d+1)
		}
		return s
	case map[string]interface{}:
		if x == nil {
			return x
		}
		m := make(map[string]interface{}, len(x))
		for k, e := range x {
			m[k] = deepCopyD(e, d+1)
		}
		return m
	}
	return v
}

// equalVal is structural equality where NaN equals NaN (avg of an empty array) and
// nil slices equal empty slices only if both are nil or both non-nil and empty —
// JSON-visible differences only: a nil []interface{} serialises as null, an empty
// one as [].
func equalVal(a, b interface{}) bool { return equalValD(a, b, 0) }

func equalValD(a, b interface{}, d int) bool {
	if d > maxDepth {
		return false
	}
	switch x := a.(type) {
	case nil:
		return b == nil
	case float64:
		y, ok := b.(float64)
		if !ok {
			return false
		}
		if x != x && y != y {
			return true
		}
		return math.Float64bits(x) == math.Float64bits(y)
	case string:
		y, ok := b.(string)
		return ok && x == y
	case bool:
		y, ok := b.(bool)
		return ok && x == y
	case []interface{}:
		y, ok := b.([]interface{})
		if !ok || len(x) != len(y) || (x == nil) != (y == nil) {
			return false
		}
		for i := range x {
			if !equalValD(x[i], y[i], d+1) {
				return false
			}
		}
		return true
	case map[string]interface{}:
		y, ok := b.(map[string]interface{})
		if !ok || len(x) != len(y) || (x == nil) != (y == nil) {
			return false
		}
		for k, e := range x {
			f, ok := y[k]
			if !ok || !equalValD(e, f, d+1) {
				return false
			}
		}
		return true
	}
	if reflect.TypeOf(a) != reflect.TypeOf(b) {
		return false
	}
	if reflect.DeepEqual(a, b) {
		return true
	}
	// NaN inside typed data: compare through JSON-ish formatting as a last resort
	return fmt.Sprintf("%#v", a) == fmt.Sprintf("%#v", b)
}

// firstDiff returns a path to the first difference between two JSON-shaped values.
func firstDiff(a, b interface{}, path string) string {
	if len(path) > 400 {
		return path + "…"
	}
	switch x := a.(type) {
	case []interface{}:
		y, ok := b.([]interface{})
		if !ok {
			return path + " (type)"
		}
		if len(x) != len(y) {
			return fmt.Sprintf("%s (len %d != %d)", path, len(x), len(y))
		}
		for i := range x {
			if !equalVal(x[i], y[i]) {
				return firstDiff(x[i], y[i], fmt.Sprintf("%s[%d]", path, i))
			}
		}
	case map[string]interface{}:
		y, ok := b.(map[string]interface{})
		if !ok {
			return path + " (type)"
		}
		if len(x) != len(y) {
			return fmt.Sprintf("%s (members %d != %d)", path, len(x), len(y))
		}
		for k, e := range x {
			f, ok := y[k]
			if !ok {
				return path + "." + k + " (missing)"
			}
			if !equalVal(e, f) {
				return firstDiff(e, f, path+"."+k)
			}
		}
	}
	return path
}

func render(v interface{}) string {
	// deepCopy first: it is depth limited, so a cyclic value cannot overflow the stack
	b, err := json.Marshal(deepCopy(v))
	if err != nil {
		return fmt.Sprintf("<%T: %v>", v, err)
	}
	if len(b) > 300 {
		return string(b[:300]) + "…"
	}
	return string(b)
}
