package main

import (
	"encoding/json"
	"fmt"
	"reflect"
	"sort"
	"strings"
	"time"

	jmespath "github.com/jmespath/go-jmespath"
	"github.com/jmespath/go-jmespath/zzverifrt"

	"verifharness/gen"
	"verifharness/simrt"
)

// simhist (DESIGN.md §3.3): one client executes a seeded history of operations on
// long-lived *JMESPath and *Parser objects, with failing operations injected between
// uses of the same object, caller edits of a shared document, and changes of the
// (simulator-owned) map order. The reference model has no state: every operation is
// evaluated beforehand in a freshly initialised package on freshly created objects.

type EditSpec struct {
	Action  string `json:"action"` // swapin | poke | append | delete
	Variant int    `json:"variant,omitempty"`
	Field   string `json:"field,omitempty"`
	Index   int    `json:"index,omitempty"`
	Value   string `json:"value,omitempty"` // JSON
}

type HOp struct {
	Jump   int64     `json:"clock_jump_ns,omitempty"` // kind "clock": the simulated clock jumps forward
	Kind   string    `json:"kind"`                    // search | oneshot | parse | edit | mapsalt | clock
	Obj    int       `json:"obj"`                     // compiled object / parser index
	Expr   int       `json:"expr"`                    // oneshot, parse: index into expressions
	Doc    int       `json:"doc"`
	Edit   *EditSpec `json:"edit,omitempty"`
	Salt   uint64    `json:"salt,omitempty"`
	Policy int       `json:"policy,omitempty"`
	Fault  string    `json:"fault,omitempty"` // how this op was made to fail (accounting only)
}

type History struct {
	Mode      string    `json:"mode"` // fresh | shared
	Exprs     []string  `json:"expressions"`
	Compiled  []int     `json:"compiled"` // compiled object j = Compile(Exprs[Compiled[j]])
	Parsers   int       `json:"parsers"`
	Docs      []DocSpec `json:"documents"`
	Variants  []string  `json:"variants,omitempty"` // alternative JSON texts for swapin edits
	Ops       []HOp     `json:"ops"`
	MapSalt   uint64    `json:"map_salt"`
	MapPolicy int       `json:"map_policy"`
}

// orderSensitive: the expression iterates over object members (object wildcard,
// keys(), values()) somewhere, so its result may depend on the unspecified order.
func orderSensitive(src string) bool {
	if strings.Contains(src, "keys") || strings.Contains(src, "values") {
		return true
	}
	for i := 0; i < len(src); i++ {
		if src[i] == '*' {
			if i > 0 && src[i-1] == '[' && i+1 < len(src) && src[i+1] == ']' {
				continue
			}
			return true
		}
	}
	return false
}

func applyEdit(doc interface{}, ed *EditSpec, variants []string, capSeed uint64) {
	m, ok := doc.(map[string]interface{})
	if !ok {
		return
	}
	switch ed.Action {
	case "swapin":
		nv, err := buildJSON(variants[ed.Variant], capSeed)
		if err != nil {
			return
		}
		nm, ok := nv.(map[string]interface{})
		if !ok {
			return
		}
		for k := range m {
			delete(m, k)
		}
		for k, v := range nm {
			m[k] = v
		}
	case "poke":
		arr, ok := m[ed.Field].([]interface{})
		if !ok || len(arr) == 0 {
			return
		}
		var v interface{}
		json.Unmarshal([]byte(ed.Value), &v)
		arr[((ed.Index%len(arr))+len(arr))%len(arr)] = v
	case "append":
		arr, ok := m[ed.Field].([]interface{})
		if !ok {
			return
		}
		var v interface{}
		json.Unmarshal([]byte(ed.Value), &v)
		m[ed.Field] = append(arr, v)
	case "delete":
		delete(m, ed.Field)
	}
}

type hOutcome struct {
	Outcome
	ast jmespath.ASTNode
}

func execParse(p *jmespath.Parser, src string) (out hOutcome) {
	if libHasGo {
		ok, _ := soloDo(func() { out = execParse0(p, src) })
		if !ok {
			return hOutcome{Outcome: Outcome{Kind: "noanswer"}}
		}
		return
	}
	return execParse0(p, src)
}

func execParse0(p *jmespath.Parser, src string) (out hOutcome) {
	simrt.OpBegin()
	l0 := stepsAtOpBegin()
	defer func() {
		if r := recover(); r != nil {
			if _, ok := r.(simrt.StepCapExceeded); ok {
				out = hOutcome{Outcome: Outcome{Kind: "stepcap"}}
			} else {
				out = hOutcome{Outcome: Outcome{Kind: "panic", ErrMsg: fmt.Sprint(r)}}
			}
		}
		out.Steps = stepsNow() - l0
	}()
	ast, err := p.Parse(src)
	if err != nil {
		out.Kind = "error"
		out.ErrType = errType(err)
		out.ErrMsg = err.Error()
		if se, ok := err.(jmespath.SyntaxError); ok {
			out.Val = se
		}
		out.ast = ast
		return
	}
	out.Kind = "value"
	out.ast = ast
	return
}

func sameParse(a, b *hOutcome) bool {
	if a.Kind != b.Kind {
		return false
	}
	switch a.Kind {
	case "value":
		return reflect.DeepEqual(a.ast, b.ast)
	case "error":
		if a.ErrType != b.ErrType || a.ErrMsg != b.ErrMsg {
			return false
		}
		return reflect.DeepEqual(a.Val, b.Val) && reflect.DeepEqual(a.ast, b.ast)
	}
	return true
}

func execSearchObj(jp *jmespath.JMESPath, doc interface{}) (out Outcome, raw interface{}) {
	if libHasGo {
		ok, _ := soloDo(func() { out, raw = execSearchObj0(jp, doc) })
		if !ok {
			return Outcome{Kind: "noanswer"}, nil
		}
		return
	}
	return execSearchObj0(jp, doc)
}

func execSearchObj0(jp *jmespath.JMESPath, doc interface{}) (out Outcome, raw interface{}) {
	simrt.OpBegin()
	l0 := stepsAtOpBegin()
	defer func() {
		if r := recover(); r != nil {
			if _, ok := r.(simrt.StepCapExceeded); ok {
				out = Outcome{Kind: "stepcap"}
			} else {
				out = Outcome{Kind: "panic", ErrMsg: fmt.Sprint(r)}
			}
		}
		out.Steps = stepsNow() - l0
	}()
	v, err := jp.Search(doc)
	if err != nil {
		return Outcome{Kind: "error", ErrType: errType(err), ErrMsg: err.Error()}, nil
	}
	return Outcome{Kind: "value", Val: deepCopy(v)}, v
}

func execOneshot(src string, doc interface{}) (out Outcome, raw interface{}) {
	if libHasGo {
		ok, _ := soloDo(func() { out, raw = execOneshot0(src, doc) })
		if !ok {
			return Outcome{Kind: "noanswer"}, nil
		}
		return
	}
	return execOneshot0(src, doc)
}

func execOneshot0(src string, doc interface{}) (out Outcome, raw interface{}) {
	simrt.OpBegin()
	l0 := stepsAtOpBegin()
	defer func() {
		if r := recover(); r != nil {
			if _, ok := r.(simrt.StepCapExceeded); ok {
				out = Outcome{Kind: "stepcap"}
			} else {
				out = Outcome{Kind: "panic", ErrMsg: fmt.Sprint(r)}
			}
		}
		out.Steps = stepsNow() - l0
	}()
	v, err := jmespath.Search(src, doc)
	if err != nil {
		o := Outcome{Kind: "error", ErrType: errType(err), ErrMsg: err.Error()}
		if se, ok := err.(jmespath.SyntaxError); ok {
			o.Val = se
		}
		return o, nil
	}
	return Outcome{Kind: "value", Val: deepCopy(v)}, v
}

type histStats struct {
	ops, failedOps, searchErr, parseErr, panics, edits, saltChanges, reuseAfterFail, sharedDocEdited, crossSalt int
	steps                                                                                                       uint64
	dirtyBufCandidates                                                                                          int
	unorderedCompares                                                                                           int
	clockJumps                                                                                                  int
}

// unordered returns a copy of v in which every array is sorted by its canonical JSON
// text: equality of two such copies is equality up to the order of array elements.
func unordered(v interface{}) interface{} { return unorderedD(v, 0) }

func unorderedD(v interface{}, d int) interface{} {
	if d > maxDepth {
		return depthSentinel
	}
	switch x := v.(type) {
	case []interface{}:
		if x == nil {
			return x
		}
		out := make([]interface{}, len(x))
		keys := make([]string, len(x))
		for i, e := range x {
			out[i] = unorderedD(e, d+1)
			b, _ := json.Marshal(out[i])
			keys[i] = string(b)
		}
		idx := make([]int, len(x))
		for i := range idx {
			idx[i] = i
		}
		sort.SliceStable(idx, func(a, b int) bool { return keys[idx[a]] < keys[idx[b]] })
		res := make([]interface{}, len(x))
		for i, j := range idx {
			res[i] = out[j]
		}
		return res
	case map[string]interface{}:
		if x == nil {
			return x
		}
		m := make(map[string]interface{}, len(x))
		for k, e := range x {
			m[k] = unorderedD(e, d+1)
		}
		return m
	}
	return v
}

var hstats histStats

// runHistory executes a history and returns its violations.
func runHistory(h *History) *RunReport {
	rep := &RunReport{}
	zzverifrt.Hook = simrt.Yield
	zzverifrt.RandSeed(int64(h.MapSalt))
	simrt.ClockReset()
	simrt.RefMode(opStepCap)
	defer simrt.RefMode(0)

	type ref struct {
		compiled, oneshot Outcome
		parse             hOutcome
		skip              bool
	}
	refs := make([]ref, len(h.Ops))

	// ---- phase 1: the stateless reference model, one pristine world per operation
	progressPhase(1)
	shadow := make([]interface{}, len(h.Docs))
	for i, d := range h.Docs {
		shadow[i] = d.Build()
	}
	salt, pol := h.MapSalt, h.MapPolicy
	docFor := func(op *HOp) interface{} {
		if h.Mode == "shared" && h.Docs[op.Doc].Kind == "json" {
			return deepCopy(shadow[op.Doc])
		}
		return h.Docs[op.Doc].Build() // (typed documents are never edited by the caller)
	}
	for i := range h.Ops {
		op := &h.Ops[i]
		switch op.Kind {
		case "mapsalt":
			salt, pol = op.Salt, op.Policy
		case "edit":
			applyEdit(shadow[op.Doc], op.Edit, h.Variants, h.Docs[op.Doc].CapSeed)
		case "search", "oneshot":
			src := h.Exprs[op.Expr]
			if op.Kind == "search" {
				src = h.Exprs[h.Compiled[op.Obj]]
			}
			refSalt := salt
			if !orderSensitive(src) {
				refSalt = salt ^ 0x5bd1e995 // order-free expressions must not care
				hstats.crossSalt++
			}
			zzverifrt.MapOrder = mapOrderFn(refSalt, pol)
			zzverifrt.ResetAll()
			jp, co := safeCompile(src)
			if jp == nil {
				refs[i].compiled = co
			} else {
				refs[i].compiled, _ = execSearchObj(jp, docFor(op))
			}
			zzverifrt.ResetAll()
			refs[i].oneshot, _ = execOneshot(src, docFor(op))
		case "parse":
			zzverifrt.ResetAll()
			refs[i].parse = execParse(jmespath.NewParser(), h.Exprs[op.Expr])
		}
	}

	// ---- phase 2: the long-lived objects, one world for the whole history
	progressPhase(2)
	defer progressPhase(3)
	zzverifrt.ResetAll()
	zzverifrt.MapOrder = mapOrderFn(h.MapSalt, h.MapPolicy)
	salt, pol = h.MapSalt, h.MapPolicy
	objs := make([]*jmespath.JMESPath, len(h.Compiled))
	for j, ei := range h.Compiled {
		jp, co := safeCompile(h.Exprs[ei])
		if jp == nil {
			// it compiled when the history was generated (arbitrary package state) and
			// does not in a freshly initialised package: Compile itself depends on history
			rep.Violations = append(rep.Violations, Violation{Prop: "C13", Class: "compile-unstable", Sig: "compile",
				Detail: fmt.Sprintf("Compile(%q) succeeded earlier in this process and gives %s in a freshly initialised package", h.Exprs[ei], co.String())})
			return rep
		}
		objs[j] = jp
	}
	parsers := make([]*jmespath.Parser, h.Parsers)
	for k := range parsers {
		parsers[k] = jmespath.NewParser()
	}
	live := make([]interface{}, len(h.Docs))
	model := make([]interface{}, len(h.Docs)) // what the caller left in the shared document
	if h.Mode == "shared" {
		for i, d := range h.Docs {
			live[i] = d.Build()
			model[i] = d.Build()
		}
	}
	type kept struct {
		raw  interface{}
		snap interface{}
		op   int
	}
	var earlier []kept
	// ASTs returned by earlier Parse calls, with their rendering at return time: using the
	// parser again must not change a tree it handed out before
	type keptAST struct {
		ast  jmespath.ASTNode
		text string
		op   int
	}
	var earlierASTs []keptAST
	lastFailed := map[string]bool{}
	saltChanged := false
	add := func(v Violation) { rep.Violations = append(rep.Violations, v) }

	for i := range h.Ops {
		op := &h.Ops[i]
		hstats.ops++
		switch op.Kind {
		case "clock":
			simrt.ClockJump(op.Jump)
			hstats.clockJumps++
			continue
		case "mapsalt":
			salt, pol = op.Salt, op.Policy
			zzverifrt.MapOrder = mapOrderFn(salt, pol)
			hstats.saltChanges++
			saltChanged = true
			continue
		case "edit":
			if h.Mode == "shared" {
				applyEdit(live[op.Doc], op.Edit, h.Variants, h.Docs[op.Doc].CapSeed)
				applyEdit(model[op.Doc], op.Edit, h.Variants, h.Docs[op.Doc].CapSeed)
				hstats.edits++
			}
			continue
		case "search", "oneshot":
			var doc interface{}
			if h.Mode == "shared" {
				doc = live[op.Doc]
			} else {
				doc = h.Docs[op.Doc].Build()
			}
			var got Outcome
			var raw interface{}
			key := fmt.Sprintf("E%d", op.Obj)
			var src string
			if op.Kind == "search" {
				src = h.Exprs[h.Compiled[op.Obj]]
				got, raw = execSearchObj(objs[op.Obj], doc)
			} else {
				key = "oneshot"
				src = h.Exprs[op.Expr]
				got, raw = execOneshot(src, doc)
			}
			hstats.steps += got.Steps
			if lastFailed[key] {
				hstats.reuseAfterFail++
			}
			lastFailed[key] = got.Kind != "value"
			switch got.Kind {
			case "error":
				hstats.searchErr++
				hstats.failedOps++
			case "panic":
				hstats.panics++
				hstats.failedOps++
			}
			r := &refs[i]
			docChanged := ""
			if h.Mode == "shared" && !observeEqual(live[op.Doc], model[op.Doc]) {
				// the call (or an earlier one) modified the caller's document. That is C06's
				// finding first, but the caller still holds "the same document": the answers
				// are compared with the stateless reference on what the caller put there
				hstats.sharedDocEdited++
				docChanged = " (the shared document no longer equals what the caller left in it: a Search call wrote to it)"
			}
			// (a step-cap outcome is a budget artefact: Compile and Search are budgeted
			// separately, the one-shot call as one operation)
			if r.compiled.Kind != "stepcap" && r.oneshot.Kind != "stepcap" && !sameOutcome(&r.compiled, &r.oneshot) {
				add(Violation{Prop: "C13", Class: "oneshot-vs-compiled", Sig: "pristine",
					Detail: fmt.Sprintf("op %d: in a freshly initialised package Compile(%q).Search(doc%d) gives %s but Search(%q, doc%d) gives %s", i, src, op.Doc, r.compiled.String(), src, op.Doc, r.oneshot.String())})
			}
			want := &r.compiled
			class, what := "history", fmt.Sprintf("compiled expression E%d %q", op.Obj, src)
			if op.Kind == "oneshot" {
				want = &r.oneshot
				class, what = "oneshot-history", fmt.Sprintf("one-shot Search(%q)", src)
			}
			same := sameOutcome(&got, want) || want.Kind == "stepcap" // a reference that ran out of budget says nothing
			if !same && saltChanged && orderSensitive(src) && got.Kind == "value" && want.Kind == "value" {
				// the object was created under another member order than the one in force now:
				// an implementation may legitimately have fixed an order earlier (constant
				// folding, interning), so only the order-insensitive content is demanded
				same = equalVal(unordered(got.Val), unordered(want.Val))
				hstats.unorderedCompares++
			}
			if !same {
				add(Violation{Prop: "C13", Class: class, Sig: op.Kind,
					Detail: fmt.Sprintf("op %d of the history: %s on doc%d returned %s; a freshly created object returns %s", i, what, op.Doc, got.String(), want.String()) + docChanged})
			}
			if h.Mode == "fresh" && got.Kind == "value" {
				earlier = append(earlier, kept{raw: raw, snap: got.Val, op: i})
				if len(earlier) > 24 {
					earlier = earlier[1:] // long histories: keep the check linear
				}
			}
		case "parse":
			src := h.Exprs[op.Expr]
			key := fmt.Sprintf("P%d", op.Obj)
			got := execParse(parsers[op.Obj], src)
			hstats.steps += got.Steps
			if lastFailed[key] {
				hstats.reuseAfterFail++
			}
			lastFailed[key] = got.Kind != "value"
			if got.Kind != "value" {
				hstats.parseErr++
				hstats.failedOps++
				if strings.Contains(src, "\\'") && strings.Contains(got.ErrMsg, "Unclosed delimiter: '") {
					hstats.dirtyBufCandidates++
				}
			}
			if got.Kind == "value" && len(src) < 160 {
				earlierASTs = append(earlierASTs, keptAST{ast: got.ast, text: safePretty(got.ast), op: i})
				if len(earlierASTs) > 6 {
					earlierASTs = earlierASTs[1:]
				}
			}
			if !sameParse(&got, &refs[i].parse) {
				add(Violation{Prop: "C13", Class: "parser-reuse", Sig: "parse",
					Detail: fmt.Sprintf("op %d of the history: reused parser P%d on %q gave %s; a fresh parser gives %s", i, op.Obj, src, parseString(&got), parseString(&refs[i].parse))})
			}
		}
		// a later call must not change what an earlier call returned
		for _, k := range earlier {
			if k.op == i {
				continue
			}
			if !equalVal(deepCopy(k.raw), k.snap) {
				add(Violation{Prop: "C13", Class: "result-clobbered", Sig: "clobber",
					Detail: fmt.Sprintf("the value returned by op %d (%s) was %s when returned and reads %s after op %d (%s)", k.op, opString(h, &h.Ops[k.op]), render(k.snap), render(k.raw), i, opString(h, op))})
				earlier = nil
				break
			}
		}
		for _, k := range earlierASTs {
			if k.op == i {
				continue
			}
			if now := safePretty(k.ast); now != k.text {
				add(Violation{Prop: "C13", Class: "ast-clobbered", Sig: "parse",
					Detail: fmt.Sprintf("the AST returned by op %d (%s) changed after op %d (%s): it was %s and now reads %s", k.op, opString(h, &h.Ops[k.op]), i, opString(h, op),
						strings.Join(strings.Fields(k.text), " "), strings.Join(strings.Fields(now), " "))})
				earlierASTs = nil
				break
			}
		}
		if len(rep.Violations) > 0 {
			return rep
		}
	}
	return rep
}

// safePretty renders an AST with the library's own PrettyPrint (instrumented code: the
// step budget is suspended, panics are contained).
func safePretty(ast jmespath.ASTNode) (out string) {
	simrt.RefMode(0)
	defer simrt.RefMode(opStepCap)
	defer func() {
		if r := recover(); r != nil {
			out = fmt.Sprintf("<PrettyPrint panicked: %v>", r)
		}
	}()
	return ast.PrettyPrint(0)
}

func parseString(o *hOutcome) string {
	switch o.Kind {
	case "value":
		s := o.ast.String()
		s = strings.Join(strings.Fields(s), " ")
		if len(s) > 200 {
			s = s[:200] + "…"
		}
		return "AST " + s
	case "error":
		return fmt.Sprintf("error(%s) %s %+v", o.ErrType, o.ErrMsg, o.Val)
	}
	return o.Kind + " " + o.ErrMsg
}

func opString(h *History, op *HOp) string {
	switch op.Kind {
	case "search":
		return fmt.Sprintf("E%d(%q).Search(doc%d)", op.Obj, h.Exprs[h.Compiled[op.Obj]], op.Doc)
	case "oneshot":
		return fmt.Sprintf("Search(%q, doc%d)", h.Exprs[op.Expr], op.Doc)
	case "parse":
		return fmt.Sprintf("P%d.Parse(%q)", op.Obj, h.Exprs[op.Expr])
	case "edit":
		return fmt.Sprintf("caller-edit(doc%d, %s)", op.Doc, op.Edit.Action)
	case "mapsalt":
		return "map-order-change"
	case "clock":
		return fmt.Sprintf("clock-jump(+%v)", time.Duration(op.Jump))
	}
	return op.Kind
}

func (h *History) describe() string {
	var b strings.Builder
	fmt.Fprintf(&b, "%s history:", h.Mode)
	for i := range h.Ops {
		if i > 0 {
			b.WriteString(" ;")
		}
		b.WriteString(" " + opString(h, &h.Ops[i]))
	}
	return b.String()
}

// ---------------------------------------------------------------- generation

func corruptExpr(r *gen.Rng, src string) (string, string) {
	if len(src) == 0 {
		return src, ""
	}
	switch r.Intn(4) {
	case 0, 1:
		k := r.Intn(len(src))
		return src[:k], "truncation"
	case 2:
		k := r.Intn(len(src))
		repl := "'\"`[](){}|&!.,:*@\\#x0 "
		return src[:k] + string(repl[r.Intn(len(repl))]) + src[k+1:], "byte-corruption"
	default:
		k := r.Intn(len(src) + 1)
		ins := []string{"'a\\'b", "\"x", "`[1,", "[", "(", ".", "&", "'", "\\"}
		return src[:k] + ins[r.Intn(len(ins))] + src[k:], "insertion"
	}
}

// rawStringExprs exercise the lexer's raw-string scratch buffer.
var rawStringExprs = []string{"'it\\'s  me'", "'it\\'s me'", "'a\\' b' | length(@)", "\"q\\\"  x\"", "`\"a\\`  b\"`", "'a\\'b'", "'it\\'s' | length(@)", "foo['x\\'y' == bar]", "'\\'' ", "[?a == 'q\\'r'].b", "'plain'", "contains('a\\'b', 'a')"}

// corruptDoc replaces one element of one top-level array by a value of another shape;
// with a hint (the expressions in play) it prefers, three times in four, an array that
// the expressions mention, so that the expression meets the fault half-way.
func corruptDoc(r *gen.Rng, text string, hint ...string) string {
	var v interface{}
	if json.Unmarshal([]byte(text), &v) != nil {
		return text
	}
	m, ok := v.(map[string]interface{})
	if !ok {
		return text
	}
	var fields []string
	for k, e := range m {
		if a, ok := e.([]interface{}); ok && len(a) > 0 {
			fields = append(fields, k)
		}
	}
	if len(fields) == 0 {
		return text
	}
	sortStrings(fields)
	if len(hint) > 0 && r.Chance(3, 4) {
		var pref []string
		for _, k := range fields {
			if strings.Contains(hint[0], k) {
				pref = append(pref, k)
			}
		}
		if len(pref) > 0 {
			fields = pref
		}
	}
	f := fields[r.Intn(len(fields))]
	a := m[f].([]interface{})
	if r.Chance(1, 2) {
		// other values at every index than in the original (leftovers of a failed call
		// are only visible where they differ from what the next call computes)
		rotate(a, 1+r.Intn(len(a)))
	}
	bad := []interface{}{"x", nil, map[string]interface{}{"k": "x"}, []interface{}{}, true, map[string]interface{}{"k": nil, "s": 1.0}}
	a[r.Intn(len(a))] = bad[r.Intn(len(bad))]
	b, _ := json.Marshal(v)
	return string(b)
}

func rotate(a []interface{}, k int) {
	if len(a) < 2 {
		return
	}
	k %= len(a)
	tmp := append(append([]interface{}{}, a[k:]...), a[:k]...)
	copy(a, tmp)
}

// siblingDoc: the same document with every top-level array rotated: same sizes (the same
// size-dependent paths are taken), other content at every index.
func siblingDoc(r *gen.Rng, text string) string {
	var v interface{}
	if json.Unmarshal([]byte(text), &v) != nil {
		return text
	}
	m, ok := v.(map[string]interface{})
	if !ok {
		return text
	}
	var fields []string
	for k := range m {
		fields = append(fields, k)
	}
	sortStrings(fields)
	for _, k := range fields {
		if a, ok := m[k].([]interface{}); ok && len(a) > 1 {
			rotate(a, 1+r.Intn(len(a)-1))
		}
	}
	b, _ := json.Marshal(v)
	return string(b)
}

func sortStrings(s []string) {
	for i := 1; i < len(s); i++ {
		for j := i; j > 0 && s[j] < s[j-1]; j-- {
			s[j], s[j-1] = s[j-1], s[j]
		}
	}
}

func genHistory(master uint64, idx int) *History {
	r := &gen.Rng{S: simrt.Mix(master^0xc13, uint64(idx))}
	h := &History{Mode: "fresh", MapSalt: r.Next(), MapPolicy: r.Intn(4) % 3}
	if r.Chance(3, 10) {
		h.Mode = "shared"
	}
	// expressions and documents
	var base DocSpec
	var pool []string
	switch x := r.Intn(100); {
	case x < 45:
		for i := 2 + r.Intn(3); i > 0; i-- {
			pool = append(pool, gen.Expr(r))
		}
		base = DocSpec{Kind: "json", Text: gen.DocFor(r, strings.Join(pool, " ")), CapSeed: r.Next() | 1, GoNums: goNumSeed(r)}
	case x < 65:
		for i := 2 + r.Intn(3); i > 0; i-- {
			pool = append(pool, systematic[r.Intn(len(systematic))])
		}
		base = DocSpec{Kind: "json", Text: gen.DocFor(r, strings.Join(pool, " ")), CapSeed: r.Next() | 1}
	case x < 90:
		c := corpus[r.Intn(len(corpus))]
		pool = append(pool, c.Expr)
		same := corpusByDoc[c.Doc]
		for i := 1 + r.Intn(3); i > 0; i-- {
			pool = append(pool, corpus[same[r.Intn(len(same))]].Expr)
		}
		base = DocSpec{Kind: "json", Text: c.Doc, CapSeed: r.Next() | 1}
	default:
		for i := 2 + r.Intn(2); i > 0; i-- {
			pool = append(pool, typedExprs[r.Intn(len(typedExprs))])
		}
		base = DocSpec{Kind: "typed", Name: typedDocNames[r.Intn(len(typedDocNames))], CapSeed: typedSeed(r)}
	}
	if r.Chance(1, 4) {
		pool = append(pool, rawStringExprs[r.Intn(len(rawStringExprs))])
	}
	if base.Kind == "json" && r.Chance(1, 5) {
		pool = append(pool, gen.GuardFilters[r.Intn(len(gen.GuardFilters))])
	}
	// near-duplicate spellings (lossy cache keys, interning tables)
	for i := r.Intn(3); i > 0; i-- {
		pool = append(pool, gen.Variant(r, pool[r.Intn(len(pool))]))
	}
	h.Exprs = pool
	for i, e := range pool {
		if compiles(e) && (len(h.Compiled) < 3) {
			h.Compiled = append(h.Compiled, i)
		}
	}
	h.Parsers = 1 + r.Intn(2)
	h.Docs = []DocSpec{base}
	if base.Kind == "typed" {
		// a second typed document of ANOTHER Go type (possibly one that prints the same name)
		other := "tdoc-shadow"
		if base.Name == "tdoc-shadow" || r.Chance(1, 3) {
			other = typedDocNames[r.Intn(len(typedDocNames))]
		}
		h.Docs = append(h.Docs, DocSpec{Kind: "typed", Name: other, CapSeed: typedSeed(r)})
		if r.Chance(1, 2) {
			// and a third of the SAME Go type as the first with other contents (nil where the
			// first has a pointer, other lengths)
			h.Docs = append(h.Docs, DocSpec{Kind: "typed", Name: base.Name, CapSeed: r.Next() | 2})
		}
	}
	if base.Kind == "json" {
		// fault documents: the expression fails half-way on these
		for i := r.Intn(3); i > 0; i-- {
			h.Docs = append(h.Docs, DocSpec{Kind: "json", Text: corruptDoc(r, base.Text, strings.Join(pool, " ")), CapSeed: r.Next() | 1})
		}
		if r.Chance(1, 3) {
			h.Docs = append(h.Docs, DocSpec{Kind: "json", Text: gen.DocFor(r, strings.Join(pool, " ")), CapSeed: r.Next() | 1})
		}
		if r.Chance(1, 3) {
			h.Docs = append(h.Docs, DocSpec{Kind: "json", Text: siblingDoc(r, base.Text), CapSeed: r.Next() | 1})
		}
		for i := 1 + r.Intn(2); i > 0; i-- {
			if r.Chance(1, 2) {
				h.Variants = append(h.Variants, corruptDoc(r, base.Text, strings.Join(pool, " ")))
			} else {
				h.Variants = append(h.Variants, gen.Doc(r))
			}
		}
	}
	addExpr := func(e string) int {
		h.Exprs = append(h.Exprs, e)
		return len(h.Exprs) - 1
	}
	n := 2 + r.Intn(12)
	if r.Chance(1, 8) {
		n = 14 + r.Intn(27)
	}
	for len(h.Ops) < n {
		if len(h.Ops) > 1 && r.Chance(15, 100) {
			h.Ops = append(h.Ops, h.Ops[r.Intn(len(h.Ops))]) // repetition
			continue
		}
		switch x := r.Intn(100); {
		case x < 45 && len(h.Compiled) > 0:
			h.Ops = append(h.Ops, HOp{Kind: "search", Obj: r.Intn(len(h.Compiled)), Doc: r.Intn(len(h.Docs))})
		case x < 55:
			h.Ops = append(h.Ops, HOp{Kind: "oneshot", Expr: r.Intn(len(pool)), Doc: r.Intn(len(h.Docs))})
		case x < 82:
			src := pool[r.Intn(len(pool))]
			fault := ""
			switch y := r.Intn(100); {
			case y < 45:
			case y < 85:
				src, fault = corruptExpr(r, src)
			case y < 97:
				src, fault = gen.BrokenExprs[r.Intn(len(gen.BrokenExprs))], "broken-list"
			default:
				src, fault = gen.DeepExprs[r.Intn(len(gen.DeepExprs))], "deep-nesting"
			}
			h.Ops = append(h.Ops, HOp{Kind: "parse", Obj: r.Intn(h.Parsers), Expr: addExpr(src), Fault: fault})
		case x < 92:
			if h.Mode == "shared" && base.Kind == "json" {
				ed := &EditSpec{}
				fields := []string{"nums", "objs", "strs", "mixed", "nested", "recs"}
				switch r.Intn(4) {
				case 0:
					ed.Action, ed.Variant = "swapin", r.Intn(len(h.Variants))
				case 1:
					ed.Action, ed.Field, ed.Index = "poke", fields[r.Intn(len(fields))], r.Intn(8)
					ed.Value = []string{"99", "\"x\"", "{\"k\":-7,\"s\":\"zz\",\"t\":[9]}", "null", "[7,6]"}[r.Intn(5)]
				case 2:
					ed.Action, ed.Field = "append", fields[r.Intn(len(fields))]
					ed.Value = []string{"-1", "\"a\"", "{\"k\":0,\"s\":\"\",\"t\":null}", "[0]"}[r.Intn(4)]
				default:
					ed.Action, ed.Field = "delete", []string{"nums", "o1", "z", "objs"}[r.Intn(4)]
				}
				h.Ops = append(h.Ops, HOp{Kind: "edit", Doc: r.Intn(len(h.Docs)), Edit: ed})
			}
		default:
			if r.Chance(1, 2) {
				h.Ops = append(h.Ops, HOp{Kind: "clock", Jump: clockJumps[r.Intn(len(clockJumps))]})
			} else {
				h.Ops = append(h.Ops, HOp{Kind: "mapsalt", Salt: r.Next(), Policy: r.Intn(3)})
			}
		}
	}
	return h
}

// ---------------------------------------------------------------- systematic sweeps (thorough tier)

var sentinelExprs = []string{
	"a", "a.b", "a[0]", "a[-1]", "a[1:3]", "a[::2]", "a[*].b", "a[].b", "a.*", "*", "a[?b > `1`]", "a[?b == 'x'].c", "a | b", "a || b", "a && b", "!a",
	"[a, b]", "{x: a, y: b}", "length(a)", "sort_by(a, &b)", "'raw'", "'it\\'s'", "`[1,2]`", "`\"s\"`", "\"quoted\"", "\"q\\\"x\"", "@", "a.b.c.d", "a[0][1]",
	"(a)", "a == b", "a != `1`", "a < `2`", "a.\"b c\"", "a[?contains(b, 'x\\'y')]", "map(&a, b)", "a[*].[b, c]", "a.{x: b}", "a[]", "[]", "[*]", "a[:2].b",
}

// sweepParsers: for each expression, every prefix and a byte corruption at every
// offset is parsed on one long-lived parser, each followed by sentinel expressions.
func sweepHistories(idx int) *History {
	all := append(append([]string{}, systematic...), rawStringExprs...)
	for _, c := range corpus {
		all = append(all, c.Expr)
	}
	if idx >= len(all) {
		return nil
	}
	src := all[idx]
	h := &History{Mode: "fresh", MapSalt: uint64(idx) + 1, Parsers: 1, Docs: []DocSpec{{Kind: "json", Text: gen.CanonicalDoc, CapSeed: 1}}}
	add := func(e, fault string) {
		h.Exprs = append(h.Exprs, e)
		h.Ops = append(h.Ops, HOp{Kind: "parse", Obj: 0, Expr: len(h.Exprs) - 1, Fault: fault})
	}
	s := idx
	for k := 0; k <= len(src); k++ {
		add(src[:k], "truncation")
		add(sentinelExprs[s%len(sentinelExprs)], "")
		s++
		if k < len(src) {
			for _, c := range []string{"'", "\\", "`", "["} {
				add(src[:k]+c+src[k+1:], "byte-corruption")
				add(sentinelExprs[s%len(sentinelExprs)], "")
				s++
			}
		}
	}
	add(src, "")
	return h
}

// genMarathon: one parser and up to three compiled expressions used for thousands of
// operations, so that state which accumulates slowly (a leaked counter, a growing
// buffer, a cache that fills up) has time to show.
func genMarathon(master uint64, idx int) *History {
	r := &gen.Rng{S: simrt.Mix(master^0x3a7a, uint64(idx))}
	h := &History{Mode: "fresh", MapSalt: r.Next(), MapPolicy: r.Intn(3), Parsers: 1}
	base := DocSpec{Kind: "json", Text: gen.Doc(r), CapSeed: r.Next() | 1}
	h.Docs = []DocSpec{base, {Kind: "json", Text: corruptDoc(r, base.Text), CapSeed: r.Next() | 1}, {Kind: "json", Text: gen.Doc(r), CapSeed: r.Next() | 1}}
	for len(h.Compiled) < 3 {
		e := gen.Expr(r)
		if r.Chance(1, 2) {
			e = systematic[r.Intn(len(systematic))]
		}
		if len(h.Compiled) == 0 && r.Chance(2, 3) {
			e = gen.GuardFilters[r.Intn(len(gen.GuardFilters))]
		}
		if compiles(e) {
			h.Exprs = append(h.Exprs, e)
			h.Compiled = append(h.Compiled, len(h.Exprs)-1)
		}
	}
	n := 1500 + r.Intn(2500)
	pick := func() string {
		switch r.Intn(4) {
		case 0:
			return corpus[r.Intn(len(corpus))].Expr
		case 1:
			return systematic[r.Intn(len(systematic))]
		case 2:
			return gen.Chain(r)
		}
		return gen.Expr(r)
	}
	for len(h.Ops) < n {
		switch x := r.Intn(100); {
		case x < 25:
			h.Ops = append(h.Ops, HOp{Kind: "search", Obj: r.Intn(len(h.Compiled)), Doc: r.Intn(len(h.Docs))})
		case x < 30:
			h.Ops = append(h.Ops, HOp{Kind: "oneshot", Expr: r.Intn(len(h.Compiled)), Doc: r.Intn(len(h.Docs))})
		case x < 36:
			base := h.Exprs[r.Intn(len(h.Exprs))]
			if r.Chance(1, 3) {
				base = rawStringExprs[r.Intn(len(rawStringExprs))]
			}
			h.Exprs = append(h.Exprs, gen.Variant(r, base))
			h.Ops = append(h.Ops, HOp{Kind: "oneshot", Expr: len(h.Exprs) - 1, Doc: r.Intn(len(h.Docs))})
		default:
			src, fault := pick(), ""
			switch y := r.Intn(100); {
			case y < 25:
			case y < 35:
				src = gen.Variant(r, src)
			case y < 80:
				src, fault = corruptExpr(r, src)
			case y < 97:
				src, fault = gen.BrokenExprs[r.Intn(len(gen.BrokenExprs))], "broken-list"
			default:
				src, fault = gen.DeepExprs[r.Intn(len(gen.DeepExprs))], "deep-nesting"
			}
			h.Exprs = append(h.Exprs, src)
			h.Ops = append(h.Ops, HOp{Kind: "parse", Obj: 0, Expr: len(h.Exprs) - 1, Fault: fault})
		}
	}
	// depth ladders: around every likely nesting limit, first inputs just above it (a
	// guard would reject them), then inputs at and just below it (a fresh object accepts
	// them): a guard whose counter leaks on rejection or failure shows here
	shape := gen.DeepShapes[r.Intn(len(gen.DeepShapes))]
	open := gen.DeepOpenShapes[r.Intn(len(gen.DeepOpenShapes))]
	deepE := -1
	for _, lim := range gen.DepthLimits {
		if lim > 1100 && !r.Chance(1, 3) {
			continue
		}
		for _, d := range []int{lim + 5, lim + 1, lim / 2, lim, lim - 1, lim - 2, lim - 6} {
			src := gen.Deep(shape, d)
			if r.Chance(1, 6) {
				src = gen.Deep(open, d)
			}
			h.Exprs = append(h.Exprs, src)
			h.Ops = append(h.Ops, HOp{Kind: "parse", Obj: 0, Expr: len(h.Exprs) - 1, Fault: "depth-ladder"})
			if r.Chance(1, 4) {
				h.Ops = append(h.Ops, HOp{Kind: "oneshot", Expr: len(h.Exprs) - 1, Doc: 0})
			}
		}
		if lim <= 520 && deepE < 0 && r.Chance(1, 3) {
			// a deep compiled expression searched on failing and succeeding documents
			e := gen.Deep(shape, lim-3)
			if compiles(e) {
				h.Exprs = append(h.Exprs, e)
				h.Compiled = append(h.Compiled, len(h.Exprs)-1)
				deepE = len(h.Compiled) - 1
			}
		}
		if deepE >= 0 {
			h.Ops = append(h.Ops, HOp{Kind: "search", Obj: deepE, Doc: r.Intn(len(h.Docs))})
		}
	}
	return h
}

// genStorm: one compiled expression (or parser) suffers k identical failures in a row and
// is then used normally: counters that leak a little per failure (depth guards, error
// budgets, statistics) need many failures before they bite.
func genStorm(master uint64, idx int) *History {
	r := &gen.Rng{S: simrt.Mix(master^0x5707, uint64(idx))}
	h := &History{Mode: "fresh", MapSalt: r.Next(), MapPolicy: r.Intn(3), Parsers: 1}
	base := DocSpec{Kind: "json", Text: gen.Doc(r), CapSeed: r.Next() | 1}
	bad := DocSpec{Kind: "json", Text: corruptDoc(r, base.Text), CapSeed: r.Next() | 1}
	h.Docs = []DocSpec{base, bad}
	// an expression that works on the base document and fails on the corrupted one
	fails := func(e string, d DocSpec) bool {
		jp, _ := safeCompile(e)
		if jp == nil {
			return false
		}
		o, _ := execSearchObj(jp, d.Build())
		return o.Kind == "error" || o.Kind == "panic"
	}
	expr := ""
	for try := 0; try < 60 && expr == ""; try++ {
		var e string
		switch r.Intn(4) {
		case 0:
			e = systematic[r.Intn(len(systematic))]
		case 1:
			e = gen.GuardFilters[r.Intn(len(gen.GuardFilters))]
		case 2:
			e = r.Pick([]string{"objs[*].abs(k)", "nums[*].abs(@)", "mixed[*].abs(k)", "sort_by(objs, &k)", "sort_by(mixed, &k)", "map(&abs(k), objs)", "objs[?abs(k) > `1`]", "sum(nums)", "strs[*].length(@)", "nested[*].length(@)", "max_by(objs, &k)", "objs[*].t[*].abs(@)", "nested[].abs(@)"})
		default:
			e = gen.Expr(r)
		}
		simrt.RefMode(opStepCap)
		if fails(e, bad) && !fails(e, base) {
			expr = e
		}
		simrt.RefMode(0)
	}
	k := []int{3, 9, 20, 40, 70, 130, 140, 260, 300, 520, 600, 1100}[r.Intn(12)]
	if expr != "" {
		h.Exprs = []string{expr}
		h.Compiled = []int{0}
		for i := 0; i < k; i++ {
			h.Ops = append(h.Ops, HOp{Kind: "search", Obj: 0, Doc: 1, Fault: "failure-storm"})
			if i%97 == 50 {
				h.Ops = append(h.Ops, HOp{Kind: "search", Obj: 0, Doc: 0})
			}
		}
		h.Ops = append(h.Ops, HOp{Kind: "search", Obj: 0, Doc: 0}, HOp{Kind: "oneshot", Expr: 0, Doc: 0}, HOp{Kind: "search", Obj: 0, Doc: 1})
	}
	// variant B (one storm in three): an expression is searched one-shot, then more than
	// 128 / 256 / 512 / 1024 / 2048 OTHER distinct expressions are, then the first one again
	// (bounded caches behind the one-shot API: eviction that forgets to unlink)
	if r.Chance(1, 3) {
		first := r.Pick([]string{"nums[0]", "objs[0].k", "s", "o1.a", "length(strs)", "n"})
		h.Exprs = append(h.Exprs, first)
		fi := len(h.Exprs) - 1
		h.Ops = append(h.Ops, HOp{Kind: "oneshot", Expr: fi, Doc: 0})
		m := []int{130, 260, 520, 1030, 1100, 2060}[r.Intn(6)]
		for i := 0; i < m; i++ {
			h.Exprs = append(h.Exprs, fmt.Sprintf("[`%d`, nums[%d]]", i, i%7))
			h.Ops = append(h.Ops, HOp{Kind: "oneshot", Expr: len(h.Exprs) - 1, Doc: 0})
			if i%257 == 100 {
				h.Ops = append(h.Ops, HOp{Kind: "oneshot", Expr: fi, Doc: 0})
			}
		}
		h.Ops = append(h.Ops, HOp{Kind: "oneshot", Expr: fi, Doc: 0}, HOp{Kind: "oneshot", Expr: fi + 1, Doc: 0}, HOp{Kind: "oneshot", Expr: fi + 2, Doc: 1})
	}
	// the same for the parser: k identical failing parses, then valid ones
	src := gen.Expr(r)
	broken, _ := corruptExpr(r, src)
	if r.Chance(1, 2) {
		broken = gen.BrokenExprs[r.Intn(len(gen.BrokenExprs))]
	}
	if r.Chance(1, 4) {
		broken = gen.Deep(gen.DeepOpenShapes[r.Intn(3)], 2+r.Intn(12))
	}
	h.Exprs = append(h.Exprs, broken, src, gen.Deep(gen.DeepShapes[r.Intn(len(gen.DeepShapes))], 20+r.Intn(60)))
	bi := len(h.Exprs) - 3
	for i := 0; i < k; i++ {
		h.Ops = append(h.Ops, HOp{Kind: "parse", Obj: 0, Expr: bi, Fault: "failure-storm"})
	}
	h.Ops = append(h.Ops, HOp{Kind: "parse", Obj: 0, Expr: bi + 1}, HOp{Kind: "parse", Obj: 0, Expr: bi + 2}, HOp{Kind: "parse", Obj: 0, Expr: bi})
	return h
}

// ---------------------------------------------------------------- worker

func histWorker(tier string, master uint64, from, to int, maxWall time.Duration, replayDir, stage string, perRun bool) *Stats {
	st := newStats()
	st.Prop, st.Tier, st.Seed, st.From, st.To = "C13", tier, master, from, to
	st.RaceBuild = simrt.RaceEnabled
	st.SitesTotal = len(siteTable)
	start := time.Now()
	hstats = histStats{}
	seen := map[uint64]bool{}
	for idx := from; idx < to; idx++ {
		if maxWall > 0 && time.Since(start) > maxWall {
			st.Truncated = true
			st.To = idx
			break
		}
		var h *History
		if stage == "sweep" {
			h = sweepHistories(idx)
			if h == nil {
				st.To = idx
				break
			}
		} else if stage == "marathon" {
			h = genMarathon(master, idx)
		} else if stage == "storm" {
			h = genStorm(master, idx)
		} else {
			h = genHistory(master, idx)
		}
		before := hstats.failedOps
		progressRun(idx)
		rep := runHistory(h)
		st.Runs++
		st.ModeRuns[stage+h.Mode]++
		d := hashStr(h.describe())
		if perRun {
			st.DigestPerRun = append(st.DigestPerRun, simrt.Mix(d, uint64(len(rep.Violations))))
		}
		st.Digest = simrt.Mix(st.Digest, d^uint64(len(rep.Violations)))
		if hstats.failedOps > before && !seen[d] {
			seen[d] = true
			st.Nontrivial++
		}
		if len(st.Samples) < 3 && (idx-from)%211 == 0 {
			desc := h.describe()
			if len(desc) > 900 {
				desc = desc[:900] + "…"
			}
			st.Samples = append(st.Samples, map[string]interface{}{"history": desc, "ops": len(h.Ops), "map_policy": h.MapPolicy, "violations": len(rep.Violations)})
		}
		var fresh *Violation
		for i := range rep.Violations {
			if k := isKnown(rep.Violations[i]); k != nil {
				st.KnownHits[k.Prop+"|"+k.Class+"|"+k.Sig]++
				continue
			}
			if fresh == nil {
				fresh = &rep.Violations[i]
			}
		}
		if fresh == nil {
			continue
		}
		rp := &Replay{Property: "C13", Class: fresh.Class, Signature: fresh.Sig, Detail: fresh.Detail, Engine: "simhist", EngineVersion: engineVersion, MasterSeed: master, RunIndex: idx, History: h}
		fullCopy := *rp
		rp.full = &fullCopy
		if min := minimiseHistory(h, fresh.Class, fresh.Sig); min != nil {
			rp.History, rp.Minimised = min, true
			if v := sameViolation(runHistory(min).Violations, fresh.Class, fresh.Sig); v != nil {
				rp.Detail = v.Detail
			}
		}
		st.Violation = rp
		st.ReplayPath = writeReplay(replayDir, rp)
		break
	}
	st.WallS = time.Since(start).Seconds()
	st.Steps = hstats.steps
	st.Faults["failed_operations_injected"] = uint64(hstats.failedOps)
	st.Faults["failing_searches"] = uint64(hstats.searchErr)
	st.Faults["failing_parses"] = uint64(hstats.parseErr)
	st.Faults["panicking_operations"] = uint64(hstats.panics)
	st.Faults["caller_edits_of_shared_document"] = uint64(hstats.edits)
	st.Faults["map_order_changes"] = uint64(hstats.saltChanges)
	st.Faults["clock_jumps_forward"] = uint64(hstats.clockJumps)
	st.Probes["object_reused_right_after_failed_operation"] = uint64(hstats.reuseAfterFail)
	st.Probes["parser_reused_after_unterminated_raw_string_with_escaped_quote"] = uint64(hstats.dirtyBufCandidates)
	st.Probes["order_free_expression_checked_across_two_map_orders"] = uint64(hstats.crossSalt)
	st.Probes["search_on_shared_doc_that_an_earlier_search_modified"] = uint64(hstats.sharedDocEdited)
	st.Probes["compared_up_to_member_order_after_map_order_change"] = uint64(hstats.unorderedCompares)
	st.Ops["operations"] = hstats.ops
	return st
}

func cloneHistory(h *History) *History {
	b, _ := json.Marshal(h)
	var c History
	json.Unmarshal(b, &c)
	return &c
}

func minimiseHistory(h0 *History, class, sig string) *History {
	deadline := time.Now().Add(30 * time.Second)
	budget := 3000
	repro := func(h *History) (ok bool) {
		if budget <= 0 || time.Now().After(deadline) {
			return false
		}
		budget--
		defer func() {
			if recover() != nil {
				ok = false
			}
		}()
		return sameViolation(runHistory(h).Violations, class, sig) != nil
	}
	cur := cloneHistory(h0)
	if !repro(cur) {
		return nil
	}
	expired := func() bool { return budget <= 0 || time.Now().After(deadline) }
	for progress := true; progress && !expired(); {
		progress = false
		for chunk := len(cur.Ops) / 2; chunk >= 1 && !expired(); chunk /= 2 {
			for i := 0; i+chunk <= len(cur.Ops) && !expired(); {
				c := cloneHistory(cur)
				c.Ops = append(append([]HOp{}, cur.Ops[:i]...), cur.Ops[i+chunk:]...)
				if len(c.Ops) > 0 && repro(c) {
					cur, progress = c, true
				} else {
					i += chunk
				}
			}
		}
		for di := range cur.Docs {
			if cur.Docs[di].Kind != "json" {
				continue
			}
			for _, t := range shrinkJSON(cur.Docs[di].Text) {
				if expired() {
					break
				}
				c := cloneHistory(cur)
				c.Docs[di].Text = t
				if repro(c) {
					cur, progress = c, true
					break
				}
			}
		}
		for ei := range cur.Exprs {
			isCompiled := false
			for _, ci := range cur.Compiled {
				if ci == ei {
					isCompiled = true
				}
			}
			for _, t := range shrinkExpr(cur.Exprs[ei]) {
				if expired() {
					break
				}
				if isCompiled && !compiles(t) {
					continue
				}
				c := cloneHistory(cur)
				c.Exprs[ei] = t
				if repro(c) {
					cur, progress = c, true
					break
				}
			}
		}
	}
	return cur
}
