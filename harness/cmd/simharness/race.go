package main

import (
	"fmt"
	"os"
	"path/filepath"
	"regexp"
	"sort"
	"strconv"
	"strings"
)

// ThreadSanitizer writes its reports to $GORACE log_path.<pid>. The harness reads
// what was appended during a run and attributes it to that run (and so to its seed).

type Frame struct {
	Func string `json:"func"`
	File string `json:"file"`
	Line int    `json:"line"`
}

type RaceReport struct {
	Kinds  [2]string  `json:"kinds"` // "Write", "Previous read", ...
	Stacks [2][]Frame `json:"stacks"`
	Raw    string     `json:"-"`
}

var (
	raceLogPath string
	raceOff     int64
)

func raceLogFile() string {
	if raceLogPath != "" {
		return raceLogPath
	}
	g := os.Getenv("GORACE")
	for _, f := range strings.Fields(g) {
		if strings.HasPrefix(f, "log_path=") {
			raceLogPath = strings.TrimPrefix(f, "log_path=") + "." + strconv.Itoa(os.Getpid())
		}
	}
	return raceLogPath
}

func raceMark() {
	p := raceLogFile()
	if p == "" {
		return
	}
	if st, err := os.Stat(p); err == nil {
		raceOff = st.Size()
	} else {
		raceOff = 0
	}
}

var accessRe = regexp.MustCompile(`^(Read|Write|Previous read|Previous write|Atomic read|Atomic write|Previous atomic read|Previous atomic write) at 0x[0-9a-f]+ by `)
var fileRe = regexp.MustCompile(`^\s+(\S.*):(\d+)( \+0x[0-9a-f]+)?$`)

func raceCollect() []RaceReport {
	p := raceLogFile()
	if p == "" {
		return nil
	}
	b, err := os.ReadFile(p)
	if err != nil || int64(len(b)) <= raceOff {
		return nil
	}
	txt := string(b[raceOff:])
	raceOff = int64(len(b))
	var out []RaceReport
	for _, blk := range strings.Split(txt, "==================") {
		if !strings.Contains(blk, "WARNING: DATA RACE") {
			continue
		}
		r := RaceReport{Raw: strings.TrimSpace(blk)}
		lines := strings.Split(blk, "\n")
		idx := -1
		for i := 0; i < len(lines); i++ {
			l := lines[i]
			if m := accessRe.FindStringSubmatch(l); m != nil {
				idx++
				if idx > 1 {
					break
				}
				r.Kinds[idx] = m[1]
				continue
			}
			if strings.HasPrefix(l, "Goroutine ") {
				break
			}
			if idx >= 0 && idx <= 1 && strings.HasPrefix(l, "  ") && !strings.HasPrefix(l, "   ") {
				fr := Frame{Func: strings.TrimSuffix(strings.TrimSpace(l), "()")}
				if i+1 < len(lines) {
					if m := fileRe.FindStringSubmatch(lines[i+1]); m != nil {
						fr.File = m[1]
						fr.Line, _ = strconv.Atoi(m[2])
						i++
					}
				}
				r.Stacks[idx] = append(r.Stacks[idx], fr)
			}
		}
		out = append(out, r)
	}
	return out
}

const libPrefix = "github.com/jmespath/go-jmespath"

func isLibFrame(f Frame) bool {
	return strings.HasPrefix(f.Func, libPrefix) && !strings.HasPrefix(f.Func, libPrefix+"/zzverifrt")
}

func isHarnessFrame(f Frame) bool {
	return strings.HasPrefix(f.Func, "main.") || strings.HasPrefix(f.Func, "verifharness/")
}

// top returns the frame that best names the access: the innermost library frame if
// any, else the innermost harness frame, else the innermost frame.
func top(st []Frame) Frame {
	for _, f := range st {
		if isLibFrame(f) {
			return f
		}
	}
	for _, f := range st {
		if isHarnessFrame(f) {
			return f
		}
	}
	if len(st) > 0 {
		return st[0]
	}
	return Frame{Func: "[stack not restored]"}
}

func frameName(f Frame) string {
	fn := strings.TrimPrefix(f.Func, libPrefix+".")
	if f.File == "" {
		return fn
	}
	return fmt.Sprintf("%s:%d(%s)", filepath.Base(f.File), f.Line, fn)
}

// Signature is the unordered pair of the two accesses' naming frames.
func (r *RaceReport) Signature() string {
	a, b := frameName(top(r.Stacks[0])), frameName(top(r.Stacks[1]))
	s := []string{a, b}
	sort.Strings(s)
	return s[0] + " <-> " + s[1]
}

func (r *RaceReport) Summary() string {
	return fmt.Sprintf("%s at %s vs %s at %s", r.Kinds[0], frameName(top(r.Stacks[0])), r.Kinds[1], frameName(top(r.Stacks[1])))
}

func (r *RaceReport) involves(fn string) bool {
	for _, st := range r.Stacks {
		for _, f := range st {
			if f.Func == fn {
				return true
			}
		}
	}
	return false
}

// harnessOnly: both stacks were restored and neither contains a library or runtime
// map/slice frame reached from library code — i.e. the harness raced with itself.
func (r *RaceReport) harnessOnly() bool {
	for _, st := range r.Stacks {
		if len(st) == 0 {
			return false
		}
		for _, f := range st {
			if isLibFrame(f) {
				return false
			}
		}
	}
	return true
}
