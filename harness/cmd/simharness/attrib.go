package main

import (
	"strconv"
	"strings"
	"time"

	"github.com/anishathalye/porcupine"
	jmespath "github.com/jmespath/go-jmespath"
	"github.com/jmespath/go-jmespath/zzverifrt"

	"verifharness/simrt"
)

// attribute decides what kind of mismatch a concurrent run shows (DESIGN.md §3.2,
// rule 3). The mismatch is a violation of C12 either way ("every call returns what
// the same call would return when made alone"); porcupine only tells whether SOME
// sequential order of the same operations on the same shared objects explains all
// observed outcomes (then the shared object is history dependent — "mismatch-sequential",
// the kind of defect C13 also looks for) or none does (a genuine interleaving effect —
// "mismatch-interleaving"). A timeout leaves it at "mismatch".
func attribute(w *Workload, rep *RunReport) string {
	type ref struct{ ci, oi int }
	var ops []porcupine.Operation
	n := 0
	for ci := range rep.Outcomes {
		for oi := range rep.Outcomes[ci] {
			o := &rep.Outcomes[ci][oi]
			ops = append(ops, porcupine.Operation{ClientId: ci, Input: ref{ci, oi}, Call: int64(o.Invoke), Output: o, Return: int64(o.Return)})
			n++
		}
	}
	if n > 12 {
		return "mismatch"
	}
	// state: the sequence of operations applied so far, e.g. "0.0,1.0,0.1"
	replay := func(state string, next ref) *Outcome {
		zzverifrt.ResetAll()
		e := &env{exprs: w.Exprs, compiled: make([]*jmespath.JMESPath, len(w.Exprs)), docs: make([]interface{}, len(w.Docs))}
		for i, d := range w.Docs {
			e.docs[i] = d.Build()
		}
		for _, cl := range w.Clients {
			for _, op := range cl {
				if op.Kind == "search" && e.compiled[op.Expr] == nil {
					jp, _ := safeCompile(w.Exprs[op.Expr])
					if jp == nil {
						return nil
					}
					e.compiled[op.Expr] = jp
				}
			}
		}
		simrt.RefMode(opStepCap)
		defer simrt.RefMode(0)
		if state != "" {
			for _, s := range strings.Split(state, ",") {
				p := strings.Split(s, ".")
				ci, _ := strconv.Atoi(p[0])
				oi, _ := strconv.Atoi(p[1])
				execOp(w.Clients[ci][oi], e)
			}
		}
		out := execOp(w.Clients[next.ci][next.oi], e)
		return &out
	}
	model := porcupine.Model{
		Init: func() interface{} { return "" },
		Step: func(state, input, output interface{}) (bool, interface{}) {
			st := state.(string)
			r := input.(ref)
			got := replay(st, r)
			if got == nil || !sameOutcome(got, output.(*Outcome)) {
				return false, state
			}
			id := strconv.Itoa(r.ci) + "." + strconv.Itoa(r.oi)
			if st == "" {
				return true, id
			}
			return true, st + "," + id
		},
		Equal: func(a, b interface{}) bool { return a.(string) == b.(string) },
	}
	switch porcupine.CheckOperationsTimeout(model, ops, 10*time.Second) {
	case porcupine.Ok:
		return "mismatch-sequential"
	case porcupine.Illegal:
		return "mismatch-interleaving"
	}
	return "mismatch"
}
