package main

// Real faults against the real jpgo binary (stage xcheck of C19).
//
// The verdicts of C19 come from jpgo's main.go running in-process over simulated
// stdio; this file checks that the simulated faults are faithful by delivering the
// same faults to the real binary through the kernel:
//
//   - hard read fault after k delivered bytes on stdin: the binary's stdin is the
//     MASTER side of a pseudo terminal whose slave side (raw mode) the harness writes
//     k bytes to and then closes; the kernel hands the k bytes to the reader and then
//     fails the next read with EIO;
//   - hard read fault at offset 0, second form: stdin is a directory (EISDIR);
//   - open faults: -input names a path that does not exist / a directory;
//   - stdout that accepts nothing: stdout is /dev/full (ENOSPC).
//
// Exit status and canonical stdout must equal the simulated run of the same case;
// disagreement means the simulator misrepresents the code: exit 2, never a verdict.

import (
	"bytes"
	"fmt"
	"os"
	"os/exec"
	"path/filepath"
	"syscall"
	"unsafe"
)

const (
	ioctlTCGETS     = 0x5401
	ioctlTCSETS     = 0x5402
	ioctlTIOCGPTN   = 0x80045430
	ioctlTIOCSPTLCK = 0x40045431
)

func ioctl(fd uintptr, req uintptr, arg unsafe.Pointer) error {
	_, _, e := syscall.Syscall(syscall.SYS_IOCTL, fd, req, uintptr(arg))
	if e != 0 {
		return e
	}
	return nil
}

// openPTY returns the master and the slave (raw mode: no output processing, no echo,
// no line editing) of a fresh pseudo terminal.
func openPTY() (master, slave *os.File, err error) {
	m, err := os.OpenFile("/dev/ptmx", os.O_RDWR|syscall.O_NOCTTY, 0)
	if err != nil {
		return nil, nil, err
	}
	var unlock int32
	if err = ioctl(m.Fd(), ioctlTIOCSPTLCK, unsafe.Pointer(&unlock)); err != nil {
		m.Close()
		return nil, nil, err
	}
	var n uint32
	if err = ioctl(m.Fd(), ioctlTIOCGPTN, unsafe.Pointer(&n)); err != nil {
		m.Close()
		return nil, nil, err
	}
	s, err := os.OpenFile(fmt.Sprintf("/dev/pts/%d", n), os.O_RDWR|syscall.O_NOCTTY, 0)
	if err != nil {
		m.Close()
		return nil, nil, err
	}
	var t syscall.Termios
	if err = ioctl(s.Fd(), ioctlTCGETS, unsafe.Pointer(&t)); err == nil {
		t.Iflag &^= syscall.IGNBRK | syscall.BRKINT | syscall.PARMRK | syscall.ISTRIP | syscall.INLCR | syscall.IGNCR | syscall.ICRNL | syscall.IXON
		t.Oflag &^= syscall.OPOST
		t.Lflag &^= syscall.ECHO | syscall.ECHONL | syscall.ICANON | syscall.ISIG | syscall.IEXTEN
		t.Cflag &^= syscall.CSIZE | syscall.PARENB
		t.Cflag |= syscall.CS8
		err = ioctl(s.Fd(), ioctlTCSETS, unsafe.Pointer(&t))
	}
	if err != nil {
		m.Close()
		s.Close()
		return nil, nil, err
	}
	return m, s, nil
}

var ptyUnavailable bool

// realFaultKind says which real fault (if any) can stand in for the simulated one.
func realFaultKind(c *IOCase) string {
	switch {
	case c.Fifo:
		return ""
	case c.StdoutFailAfter == 0 && c.FailAfter < 0 && c.OpenFault == "":
		return "devfull"
	case c.StdoutFailAfter >= 0 || c.Transient != "":
		return ""
	case c.OpenFault == "notexist" || c.OpenFault == "isdir":
		return c.OpenFault
	case c.OpenFault != "":
		return "" // permission faults do not exist for root
	case c.FailAfter >= 0 && c.Transient == "" && c.Channel == "stdin" && c.FailAfter <= len(c.Text) && len(c.Text) < 70000:
		return "pty"
	}
	return ""
}

// crossCheckFault delivers the fault of case c to the real binary and compares the
// outcome with the simulation. It returns (description of a disagreement, kind used).
func crossCheckFault(bin string, c *IOCase, nth int) (string, string) {
	kind := realFaultKind(c)
	if kind == "" || (kind == "pty" && ptyUnavailable) {
		return "", ""
	}
	sim := runJpgo(c)
	args := c.args()[1:]
	cmd := exec.Command(bin)
	cmd.Env = c.envList()
	var so, se bytes.Buffer
	cmd.Stdout, cmd.Stderr = &so, &se
	var feed func()
	dir := filepath.Dir(bin)
	switch kind {
	case "notexist":
		args = c.argsFor(filepath.Join(dir, fmt.Sprintf("no-such-file-%d.json", os.Getpid())))[1:]
		cmd.Stdin = bytes.NewReader([]byte(c.StdinNoise))
	case "isdir":
		args = c.argsFor(dir)[1:]
		cmd.Stdin = bytes.NewReader([]byte(c.StdinNoise))
	case "devfull":
		f, err := os.OpenFile("/dev/full", os.O_WRONLY, 0)
		if err != nil {
			return "", ""
		}
		defer f.Close()
		cmd.Stdout = f
		if c.Channel == "file" {
			tmp := filepath.Join(dir, fmt.Sprintf("xfault-%d.json", os.Getpid()))
			if err := os.WriteFile(tmp, []byte(c.Text), 0644); err != nil {
				return "", ""
			}
			defer os.Remove(tmp)
			args = c.argsFor(tmp)[1:]
			cmd.Stdin = bytes.NewReader([]byte(c.StdinNoise))
		} else {
			cmd.Stdin = bytes.NewReader([]byte(c.Text))
		}
	case "pty":
		if c.FailAfter == 0 && nth%2 == 1 {
			// second form of "error before the first byte": stdin is a directory
			d, err := os.Open(dir)
			if err != nil {
				return "", ""
			}
			defer d.Close()
			cmd.Stdin = d
			kind = "stdin-is-directory"
			break
		}
		m, s, err := openPTY()
		if err != nil {
			ptyUnavailable = true
			return "", ""
		}
		cmd.Stdin = m
		data := []byte(c.Text)[:c.FailAfter]
		feed = func() {
			m.Close() // the child holds the only master descriptor now
			k := len(data)
			if c.Chunk == "one" {
				k = 1
			} else if c.Chunk == "fixed" && c.K > 0 {
				k = c.K
			}
			for off := 0; off < len(data); {
				n := k
				if n <= 0 || off+n > len(data) {
					n = len(data) - off
				}
				if _, err := s.Write(data[off : off+n]); err != nil {
					break
				}
				off += n
			}
			s.Close() // last slave descriptor gone: buffered bytes, then EIO
		}
	}
	cmd.Args = append([]string{bin}, args...)
	if err := cmd.Start(); err != nil {
		fatal2("cannot start real jpgo: %v", err)
	}
	if feed != nil {
		feed()
	}
	werr := cmd.Wait()
	exit := 0
	if werr != nil {
		if ee, ok := werr.(*exec.ExitError); ok {
			exit = ee.ExitCode()
		} else {
			return "", ""
		}
	}
	if kind == "devfull" {
		// nothing was accepted by stdout on either side; only the status can be compared
		if exit != sim.exit {
			return fmt.Sprintf("case [%s] with stdout=/dev/full: real exit=%d, simulated exit=%d", c.describe(), exit, sim.exit), kind
		}
		return "", kind
	}
	simCanon, simOK := canonJSON(sim.stdout)
	realCanon, realOK := canonJSON(so.Bytes())
	if exit != sim.exit || simOK != realOK || simCanon != realCanon || (len(bytes.TrimSpace(so.Bytes())) == 0) != (len(bytes.TrimSpace(sim.stdout)) == 0) {
		return fmt.Sprintf("case [%s] under a real %s fault: real exit=%d stdout=%q stderr=%q, simulated exit=%d stdout=%q", c.describe(), kind, exit, clip(so.Bytes()), clip(se.Bytes()), sim.exit, clip(sim.stdout)), kind
	}
	return "", kind
}

// envList is the environment of the real process for case c: exactly the simulated one.
func (c *IOCase) envList() []string {
	out := []string{}
	for k, v := range c.Env {
		out = append(out, k+"="+v)
	}
	return out
}
