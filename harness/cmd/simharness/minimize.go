package main

import (
	"encoding/json"
	"strings"
	"time"

	"verifharness/simrt"
)

// minimiseSched shrinks a failing scheduler workload while the same violation
// (class + signature) persists: drop clients, drop operations, drop preemptions,
// shrink documents, shrink expressions. Every candidate is executed in-process.
func minimiseSched(w0 *Workload, class, sig string) *Workload {
	deadline := time.Now().Add(40 * time.Second)
	budget := 1500
	cur := cloneWorkload(w0)
	repro := func(w *Workload) bool {
		if budget <= 0 || time.Now().After(deadline) {
			return false
		}
		budget--
		ok := false
		func() {
			defer func() {
				if r := recover(); r != nil {
					ok = false
				}
			}()
			rep := runSched(w)
			ok = sameViolation(rep.Violations, class, sig) != nil
		}()
		return ok
	}
	if !repro(cur) {
		return nil
	}
	expired := func() bool { return budget <= 0 || time.Now().After(deadline) }
	for progress := true; progress && !expired(); {
		progress = false
		// A. drop clients
		for ci := 0; ci < len(cur.Clients) && len(cur.Clients) > 1; ci++ {
			c := dropClient(cur, ci)
			if repro(c) {
				cur, progress = c, true
				ci--
			}
		}
		if cur.Observer && cur.Prop != "C06" {
			c := cloneWorkload(cur)
			c.Observer = false
			if repro(c) {
				cur, progress = c, true
			}
		}
		// B. drop operations (halves first for long lists)
		for ci := 0; ci < len(cur.Clients); ci++ {
			for chunk := len(cur.Clients[ci]) / 2; chunk >= 2 && !expired(); chunk /= 2 {
				for i := 0; i+chunk <= len(cur.Clients[ci]) && len(cur.Clients[ci])-chunk >= 1 && !expired(); {
					c := cloneWorkload(cur)
					c.Clients[ci] = append(append([]Op{}, cur.Clients[ci][:i]...), cur.Clients[ci][i+chunk:]...)
					if repro(c) {
						cur, progress = c, true
					} else {
						i += chunk
					}
				}
			}
		}
		for ci := 0; ci < len(cur.Clients); ci++ {
			for oi := 0; oi < len(cur.Clients[ci]) && len(cur.Clients[ci]) > 1 && !expired(); oi++ {
				c := cloneWorkload(cur)
				c.Clients[ci] = append(append([]Op{}, c.Clients[ci][:oi]...), c.Clients[ci][oi+1:]...)
				if repro(c) {
					cur, progress = c, true
					oi--
				}
			}
		}
		// C. drop preemptions (chunks first)
		if cur.UseForced {
			for chunk := len(cur.Forced) / 2; chunk >= 1; chunk /= 2 {
				for i := 0; i+chunk <= len(cur.Forced) && !expired(); {
					c := cloneWorkload(cur)
					c.Forced = append(append([]simrt.Event{}, cur.Forced[:i]...), cur.Forced[i+chunk:]...)
					if repro(c) {
						cur, progress = c, true
					} else {
						i += chunk
					}
				}
			}
		}
		// D. shrink documents
		for di := range cur.Docs {
			if cur.Docs[di].Kind != "json" {
				continue
			}
			for _, t := range shrinkJSON(cur.Docs[di].Text) {
				if expired() {
					break
				}
				c := cloneWorkload(cur)
				c.Docs[di].Text = t
				if repro(c) {
					cur, progress = c, true
					break
				}
			}
		}
		// E. shrink expressions
		for ei := range cur.Exprs {
			for _, t := range shrinkExpr(cur.Exprs[ei]) {
				if expired() {
					break
				}
				if usedAsSearch(cur, ei) && !compiles(t) {
					continue
				}
				c := cloneWorkload(cur)
				c.Exprs[ei] = t
				if repro(c) {
					cur, progress = c, true
					break
				}
			}
		}
	}
	return cur
}

func usedAsSearch(w *Workload, ei int) bool {
	for _, ops := range w.Clients {
		for _, op := range ops {
			if op.Expr == ei && op.Kind == "search" {
				return true
			}
		}
	}
	return false
}

func cloneWorkload(w *Workload) *Workload {
	b, _ := json.Marshal(w)
	var c Workload
	json.Unmarshal(b, &c)
	return &c
}

func dropClient(w *Workload, ci int) *Workload {
	c := cloneWorkload(w)
	c.Clients = append(append([][]Op{}, c.Clients[:ci]...), c.Clients[ci+1:]...)
	var ev []simrt.Event
	for _, e := range c.Forced {
		if e.Client == ci || e.To == ci {
			continue
		}
		if e.Client > ci {
			e.Client--
		}
		if e.To > ci {
			e.To--
		}
		ev = append(ev, e)
	}
	c.Forced = ev
	if c.Sched.First == ci {
		c.Sched.First = 0
	} else if c.Sched.First > ci {
		c.Sched.First--
	}
	return c
}

// shrinkJSON proposes smaller variants of a JSON text: each top-level member removed,
// each array halved / one element removed (one level below the top as well).
func shrinkJSON(text string) []string {
	var v interface{}
	if json.Unmarshal([]byte(text), &v) != nil {
		return nil
	}
	var out []string
	emit := func(x interface{}) {
		b, err := json.Marshal(x)
		if err == nil && len(b) < len(text) {
			out = append(out, string(b))
		}
	}
	var walk func(get func() interface{}, set func(interface{}), depth int)
	walk = func(get func() interface{}, set func(interface{}), depth int) {
		switch x := get().(type) {
		case map[string]interface{}:
			for k, e := range x {
				delete(x, k)
				emit(v)
				x[k] = e
			}
			if depth < 3 {
				for k := range x {
					k := k
					walk(func() interface{} { return x[k] }, func(n interface{}) { x[k] = n }, depth+1)
				}
			}
		case []interface{}:
			if len(x) > 1 {
				set(x[:len(x)/2])
				emit(v)
				set(x[len(x)/2:])
				emit(v)
				set(x)
			}
			if len(x) <= 8 {
				for i := range x {
					n := append(append([]interface{}{}, x[:i]...), x[i+1:]...)
					set(n)
					emit(v)
				}
				set(x)
			}
			if depth < 3 && len(x) <= 6 {
				for i := range x {
					i := i
					walk(func() interface{} { return x[i] }, func(n interface{}) { x[i] = n }, depth+1)
				}
			}
		}
	}
	walk(func() interface{} { return v }, func(n interface{}) { v = n }, 0)
	if len(out) > 60 {
		out = out[:60]
	}
	return out
}

// shrinkExpr proposes simpler expressions: single pipe stages, prefixes of pipes,
// the arguments of the outermost call.
func shrinkExpr(e string) []string {
	var out []string
	add := func(s string) {
		s = strings.TrimSpace(s)
		if s != "" && s != e && len(s) < len(e) {
			out = append(out, s)
		}
	}
	parts := splitTop(e, '|')
	if len(parts) > 1 {
		for i := range parts {
			add(strings.Join(append(append([]string{}, parts[:i]...), parts[i+1:]...), " | "))
		}
	}
	// outermost f(a, b) -> a, b ; [a, b] -> a, b ; (a) -> a
	t := strings.TrimSpace(e)
	if i := strings.IndexAny(t, "(["); i >= 0 && (strings.HasSuffix(t, ")") || strings.HasSuffix(t, "]")) {
		inner := t[i+1 : len(t)-1]
		for _, a := range splitTop(inner, ',') {
			a = strings.TrimSpace(a)
			a = strings.TrimPrefix(a, "&")
			add(a)
		}
	}
	return out
}

// splitTop splits on sep outside brackets, parentheses, braces and quotes ("||" is
// not a pipe).
func splitTop(e string, sep byte) []string {
	var parts []string
	depth := 0
	var quote byte
	start := 0
	for i := 0; i < len(e); i++ {
		c := e[i]
		if quote != 0 {
			if c == '\\' {
				i++
			} else if c == quote {
				quote = 0
			}
			continue
		}
		switch c {
		case '\'', '"', '`':
			quote = c
		case '(', '[', '{':
			depth++
		case ')', ']', '}':
			depth--
		default:
			if c == sep && depth == 0 {
				if sep == '|' && (i+1 < len(e) && e[i+1] == '|') {
					i++
					continue
				}
				parts = append(parts, e[start:i])
				start = i + 1
			}
		}
	}
	parts = append(parts, e[start:])
	return parts
}
