package main

import (
	"bytes"
	"encoding/json"
	"fmt"
	"io"
	"os"
	"os/exec"
	"path/filepath"
	"sort"
	"strings"
	"time"

	jmespath "github.com/jmespath/go-jmespath"
	"github.com/jmespath/go-jmespath/zzverifrt"

	"verifharness/gen"
	"verifharness/jpgomain"
	shimflag "verifharness/shim/flag"
	shimos "verifharness/shim/os"
	"verifharness/simio"
	"verifharness/simrt"
)

// simio engine (DESIGN.md §3.4): jpgo's real main.go body runs in-process over a
// simulated stdin / file system / stdout / exit. A case is (argv, input text, channel,
// read plan, fault plan).

type IOCase struct {
	Expr            string `json:"expression"`
	Text            string `json:"input_text"`
	Channel         string `json:"channel"`    // stdin | file
	InputFlag       string `json:"input_flag"` // "-input" | "--input" | "-input=" | "--input="
	FileName        string `json:"file_name,omitempty"`
	Chunk           string `json:"chunk"` // all | one | fixed | random
	K               int    `json:"k,omitempty"`
	ChunkSeed       uint64 `json:"chunk_seed,omitempty"`
	ZeroReadAt      []int  `json:"zero_read_at,omitempty"`
	EOFWithData     bool   `json:"eof_with_data,omitempty"`
	FailAfter       int    `json:"fail_after"`           // -1: no hard read fault
	Transient       string `json:"transient,omitempty"`  // "", EINTR, EAGAIN: the fault at fail_after happens once, then reading goes on
	OpenFault       string `json:"open_fault,omitempty"` // notexist | perm | isdir
	StdinNoise      string `json:"stdin_noise,omitempty"`
	StdoutFailAfter int    `json:"stdout_fail_after"` // -1: stdout never fails
	// Env: environment variables of the simulated process. Only names the program was
	// seen to look up are ever set, and only to the two values every boolean parser reads
	// as "off" (0, false): a plain invocation must behave as the property says under them.
	Env map[string]string `json:"env,omitempty"`
	// Fifo: the -input name is a named pipe (Stat: size 0, not a regular file).
	Fifo bool `json:"fifo,omitempty"`
	// DashDash: "--" stands between the flags and the expression, so the expression may
	// begin with '-' (and may look like a flag).
	DashDash bool `json:"dash_dash,omitempty"`
}

// lastEnvAsked: variable names the last simulated jpgo run looked up.
var lastEnvAsked []string

var envOffValues = []string{"0", "false"}

type ioRef struct {
	exprValid, textValid, evalErr, panicked, serErr bool
	canon                                           string
	ok                                              bool
}

func canonJSON(b []byte) (string, bool) {
	dec := json.NewDecoder(bytes.NewReader(b))
	var v interface{}
	if err := dec.Decode(&v); err != nil {
		return "", false
	}
	// exactly one JSON text, then only white space
	var extra interface{}
	if err := dec.Decode(&extra); err != io.EOF {
		return "", false
	}
	out, err := json.Marshal(v)
	if err != nil {
		return "", false
	}
	return string(out), true
}

func computeRef(expr, text string) (r ioRef) {
	func() {
		defer func() {
			if recover() != nil {
				r.exprValid = false
			}
		}()
		_, err := jmespath.Compile(expr)
		r.exprValid = err == nil
	}()
	var data interface{}
	r.textValid = json.Unmarshal([]byte(text), &data) == nil
	if !r.exprValid || !r.textValid {
		return
	}
	var v interface{}
	func() {
		defer func() {
			if recover() != nil {
				r.panicked = true
			}
		}()
		var err error
		v, err = jmespath.Search(expr, data)
		r.evalErr = err != nil
	}()
	if r.evalErr || r.panicked {
		return
	}
	ser, err := json.Marshal(v)
	if err != nil {
		r.serErr = true
		return
	}
	c, ok := canonJSON(ser)
	if !ok {
		r.serErr = true
		return
	}
	r.canon = c
	r.ok = true
	return
}

type ioResult struct {
	exit     int
	stdout   []byte
	stderr   []byte
	panicMsg string
	world    *simio.World
	fileRd   bool
}

func (c *IOCase) args() []string { return c.argsFor(c.FileName) }

func (c *IOCase) argsFor(file string) []string {
	a := []string{"jpgo"}
	if c.Channel == "file" {
		switch c.InputFlag {
		case "-input=", "--input=":
			a = append(a, c.InputFlag+file)
		case "--input":
			a = append(a, "--input", file)
		default:
			a = append(a, "-input", file)
		}
	}
	if c.DashDash {
		a = append(a, "--")
	}
	return append(a, c.Expr)
}

func (c *IOCase) plan(data []byte) simio.ReadPlan {
	return simio.ReadPlan{Data: data, Chunk: c.Chunk, K: c.K, Seed: c.ChunkSeed, ZeroReadAt: c.ZeroReadAt, EOFWithData: c.EOFWithData, FailAfter: c.FailAfter, Transient: c.Transient}
}

func runJpgo(c *IOCase) (res ioResult) {
	files := map[string]*simio.FileSpec{}
	var stdin simio.ReadPlan
	if c.Channel == "file" {
		files[c.FileName] = &simio.FileSpec{OpenFault: c.OpenFault, Plan: c.plan([]byte(c.Text)), Fifo: c.Fifo}
		stdin = simio.ReadPlan{Data: []byte(c.StdinNoise), Chunk: "all", FailAfter: -1}
	} else {
		stdin = c.plan([]byte(c.Text))
	}
	w := simio.NewWorld(c.args(), stdin, files, c.StdoutFailAfter)
	w.Env = c.Env
	simio.W = w
	shimos.Args = w.Args
	shimflag.Reset()
	jpgomain.VerifReset() // package-level variables as in a freshly started process
	zzverifrt.MapOrder = nil
	res.world = w
	res.exit = -1
	func() {
		defer func() {
			if r := recover(); r != nil {
				if ep, ok := r.(simio.ExitPanic); ok {
					res.exit = ep.Code
					return
				}
				// an uncaught panic: the Go runtime prints it and exits with status 2
				res.exit = 2
				res.panicMsg = fmt.Sprint(r)
			}
		}()
		jpgomain.VerifMain()
		res.exit = 0 // main returned
	}()
	res.stdout = w.Stdout.Buf.Bytes()
	res.stderr = w.Stderr.Buf.Bytes()
	lastEnvAsked = w.EnvAsked
	return
}

type ioStats struct {
	cases, faultFree, hardFault, openFault, stdoutFault, exit0, exitN, zeroReads, shortReads, eofWithData, hardErrs int
	errLastByte, errAtStart, errAfterAll, noise, okExpected, invalidText, invalidExpr, evalErr, panics, serErr      int
	bytes                                                                                                           uint64
	ioEvents                                                                                                        uint64
	faultIgnoredButCorrect                                                                                          int
	envCases, transient                                                                                             int
}

var iostats ioStats

func runIOCase(c *IOCase) *RunReport {
	rep := &RunReport{}
	zzverifrt.Hook = simrt.Yield
	progressPhase(1)
	ref := computeRef(c.Expr, c.Text)
	progressPhase(2)
	res := runJpgo(c)
	progressPhase(3)
	w := res.world
	iostats.cases++
	iostats.bytes += uint64(len(c.Text))
	iostats.ioEvents += uint64(w.C.Reads + w.C.Writes + w.C.Opens + w.C.Exits)
	iostats.zeroReads += w.C.ZeroReads
	iostats.shortReads += w.C.ShortReads
	iostats.eofWithData += w.C.EOFWithData
	iostats.hardErrs += w.C.HardReadErrors
	iostats.errLastByte += w.C.ErrorOnLastByte
	iostats.errAtStart += w.C.ErrorAtStart
	iostats.errAfterAll += w.C.ErrorAfterAll
	if c.StdinNoise != "" {
		iostats.noise++
	}
	openFault := c.Channel == "file" && c.OpenFault != ""
	hard := w.C.HardReadErrors > 0 || w.C.TransientReadErrors > 0 || (openFault && w.C.Opens > 0)
	iostats.transient += w.C.TransientReadErrors
	stdoutFault := w.Stdout.Failed
	okExpected := ref.ok && !openFault
	switch {
	case !ref.exprValid:
		iostats.invalidExpr++
	case !ref.textValid:
		iostats.invalidText++
	case ref.evalErr:
		iostats.evalErr++
	case ref.panicked:
		iostats.panics++
	case ref.serErr:
		iostats.serErr++
	default:
		iostats.okExpected++
	}
	if res.exit == 0 {
		iostats.exit0++
	} else {
		iostats.exitN++
	}
	switch {
	case stdoutFault:
		iostats.stdoutFault++
	case openFault:
		iostats.openFault++
	case hard:
		iostats.hardFault++
	default:
		iostats.faultFree++
	}
	faultKind := "fault-free"
	if hard {
		faultKind = "hard-read-fault"
		if w.C.TransientReadErrors > 0 && w.C.HardReadErrors == 0 {
			faultKind = "transient-read-fault"
		}
	}
	if openFault {
		faultKind = "open-fault:" + c.OpenFault
	}
	if len(c.Env) > 0 {
		faultKind = "env/" + faultKind
		iostats.envCases++
	}
	add := func(class, detail string) {
		rep.Violations = append(rep.Violations, Violation{Prop: "C19", Class: class, Sig: faultKind, Detail: detail + " [" + c.describe() + "]"})
	}
	if stdoutFault {
		// only: what stdout accepted is a prefix of what a healthy stdout receives
		c2 := *c
		c2.StdoutFailAfter = -1
		res2 := runJpgo(&c2)
		if !bytes.HasPrefix(res2.stdout, res.stdout) {
			rep.Violations = append(rep.Violations, Violation{Prop: "C19", Class: "stdout-prefix", Sig: "stdout-fault",
				Detail: fmt.Sprintf("bytes accepted by a failing stdout (%q) are not a prefix of the healthy output (%q) [%s]", clip(res.stdout), clip(res2.stdout), c.describe())})
		}
		return rep
	}
	out := bytes.TrimSpace(res.stdout)
	if res.exit == 0 {
		if !okExpected {
			why := "the input cannot be answered"
			switch {
			case !ref.exprValid:
				why = "the expression is invalid"
			case openFault:
				why = "the input file cannot be opened/read (" + c.OpenFault + ")"
			case !ref.textValid:
				why = "the input text is not valid JSON"
			case ref.evalErr:
				why = "evaluation raises an error"
			case ref.panicked:
				why = "evaluation panics"
			case ref.serErr:
				why = "the result cannot be serialised"
			}
			add("exit0-on-failure", fmt.Sprintf("jpgo exited 0 although %s; stdout=%q", why, clip(res.stdout)))
			return rep
		}
		got, ok := canonJSON(res.stdout)
		if !ok {
			add("exit0-wrong-output", fmt.Sprintf("jpgo exited 0 but stdout is not exactly one JSON text: %q (library result %s)", clip(res.stdout), clipS(ref.canon)))
			return rep
		}
		if got != ref.canon {
			add("exit0-wrong-output", fmt.Sprintf("jpgo exited 0 and printed %s but the library result for the full input is %s", clipS(got), clipS(ref.canon)))
			return rep
		}
		if hard {
			iostats.faultIgnoredButCorrect++
		}
	} else {
		if len(out) != 0 {
			add("stdout-on-failure", fmt.Sprintf("jpgo exited %d but printed %q on standard output", res.exit, clip(res.stdout)))
			return rep
		}
		if okExpected && !hard {
			add("nonzero-on-success", fmt.Sprintf("valid expression and valid input, no fault injected, library result %s, but jpgo exited %d; stderr=%q panic=%q", clipS(ref.canon), res.exit, clip(res.stderr), res.panicMsg))
			return rep
		}
	}
	return rep
}

func clip(b []byte) string {
	if len(b) > 160 {
		return string(b[:160]) + "…"
	}
	return string(b)
}
func clipS(s string) string { return clip([]byte(s)) }

func (c *IOCase) describe() string {
	t := c.Text
	if len(t) > 80 {
		t = t[:80] + fmt.Sprintf("…(%d bytes)", len(c.Text))
	}
	s := fmt.Sprintf("expr=%q input=%q channel=%s chunk=%s", c.Expr, t, c.Channel, c.Chunk)
	if c.Chunk == "fixed" {
		s += fmt.Sprintf("/%d", c.K)
	}
	if len(c.ZeroReadAt) > 0 {
		s += fmt.Sprintf(" zero_reads@%v", c.ZeroReadAt)
	}
	if c.EOFWithData {
		s += " data+EOF"
	}
	if c.FailAfter >= 0 && c.Transient != "" {
		s += fmt.Sprintf(" one_%s_after=%d", c.Transient, c.FailAfter)
	} else if c.FailAfter >= 0 {
		s += fmt.Sprintf(" EIO_after=%d", c.FailAfter)
	}
	if c.OpenFault != "" {
		s += " open=" + c.OpenFault
	}
	if c.StdinNoise != "" {
		s += fmt.Sprintf(" stdin_noise=%q", clipS(c.StdinNoise))
	}
	if c.StdoutFailAfter >= 0 {
		s += fmt.Sprintf(" stdout_fails_after=%d", c.StdoutFailAfter)
	}
	if c.Fifo {
		s += " input_is_fifo"
	}
	if c.DashDash {
		s += " dash_dash"
	}
	if len(c.Env) > 0 {
		var ks []string
		for k := range c.Env {
			ks = append(ks, k)
		}
		sort.Strings(ks)
		for _, k := range ks {
			s += fmt.Sprintf(" env:%s=%s", k, c.Env[k])
		}
	}
	return s
}

// ---------------------------------------------------------------- generation

var ioEvalErrExprs = []string{"abs(s)", "sort_by(mixed, &k)", "length(n)", "max_by(mixed, &k)", "unknown_fn(nums)", "sum(strs)", "join(',', nums)", "nums[::0]", "merge(o1, nums)", "sort(objs)"}
var ioNumberExprs = []string{"abs(id)", "type(id)", "items[?id > `10`].v", "id == `9007199254740992`", "sum(nums)", "nums[0]", "max(nums)", "sort(nums)", "nums", "n", "abs(n)", "objs[?k > `5`].s", "sort_by(objs, &k)[0].s", "max_by(objs, &k).s",
	"nums[?@ > `1`]", "avg(nums)", "to_string(nums)", "to_number(to_string(id))", "id", "ceil(nums[3])", "nums[0] == nums[0]", "objs[0].k == objs[1].k", "length(nums)", "floor(n)", "@"}

// ioErrCombos: an erroring sub-expression next to literals and operators — the error must
// reach the exit status whatever surrounds it.
var ioErrCombos = func() []string {
	var out []string
	for _, e := range []string{"abs(s)", "nums[::0]", "sort_by(mixed, &k)", "length(n)", "unknown_fn(nums)", "sum(strs)"} {
		for _, t := range []string{"E | `1`", "E | 'checked'", "E | `[]`", "E || `1`", "E && `1`", "`1` | E", "[E, `1`]", "{a: E, b: `1`}", "not_null(E, `1`)", "nums[?E]", "objs[*].{k: k, e: E}", "(E) | @", "[`1`, E][0]", "E | nums", "nums | E | `1`", "!(E)", "E == `1`"} {
			out = append(out, strings.Replace(t, "E", e, -1))
		}
	}
	return out
}()

var ioOddResultExprs = []string{"avg(e)", "&nums", "[&nums]", "contains(nested, nested[0])", "`\"<a>&\\u2028\"`", "to_string(@)", "s", "z", "`[]`", "`{}`", "n", "t", "''", "o1.*", "keys(o1)", "@",
	// a large serialisable part first, the unserialisable element last (and the reverse): output
	// written piecewise must not leave a partial result behind when the run fails
	"[nums, avg(e)]", "[objs, nums, avg(e)]", "[@, avg(e)]", "{a: @, z: avg(e)}", "[avg(e), nums]", "nums[*].[@, avg(`[]`)][]", "[nums, objs, &nums]", "[to_string(@), to_string(@), avg(e)]", "objs[*].[k, s, avg(`[]`)]", "[nums, nums, nums, nums, avg(`[]`)]"}

func indentJSON(r *gen.Rng, text string) string {
	var buf bytes.Buffer
	switch r.Intn(5) {
	case 0:
		if json.Indent(&buf, []byte(text), "", "  ") == nil {
			return buf.String()
		}
	case 1:
		if json.Indent(&buf, []byte(text), "\t", " ") == nil {
			return "\n\t " + buf.String() + "\r\n"
		}
	case 2:
		return " " + text + "\n"
	}
	return text
}

func bigText(r *gen.Rng, target int) string {
	var b strings.Builder
	b.WriteString(`{"nums":[`)
	i := 0
	for b.Len() < target/2 {
		if i > 0 {
			b.WriteByte(',')
		}
		fmt.Fprintf(&b, "%d", r.Intn(100000))
		i++
	}
	b.WriteString(`],"objs":[`)
	i = 0
	for b.Len() < target {
		if i > 0 {
			b.WriteByte(',')
		}
		fmt.Fprintf(&b, `{"k":%d,"s":"w%d é\n\"q\"","t":[%d]}`, r.Intn(50), r.Intn(999), i)
		i++
	}
	b.WriteString(`],"strs":["b","a"],"mixed":[{"k":1},{"k":"x"}],"nested":[[1],[2,[3]]],"o1":{"a":1},"o2":{"b":2},"s":"héllo","n":-3.5,"t":true,"z":null,"e":[],"eo":{}}`)
	return b.String()
}

// paddedText is a small valid document blown up to target+delta bytes by padding that is
// cheap to decode: a long string member, leading or trailing white space.
func paddedText(r *gen.Rng, target int) string {
	n := target + []int{-1, 0, 1, 2, 4096, target / 16, 65536}[r.Intn(7)]
	core := `"nums":[3,1,2],"strs":["b","a"],"objs":[{"k":2,"s":"b"},{"k":1,"s":"a"}],"s":"héllo","n":-3.5}`
	switch r.Intn(3) {
	case 0:
		head := `{"pad":"`
		pad := n - len(head) - len(core) - 2
		if pad < 0 {
			pad = 0
		}
		return head + strings.Repeat("x", pad) + `",` + core
	case 1:
		pad := n - len(core) - 1
		if pad < 0 {
			pad = 0
		}
		return strings.Repeat(" ", pad) + "{" + core
	default:
		pad := n - len(core) - 1
		if pad < 0 {
			pad = 0
		}
		// at most 64 KiB of trailing white space (json.Decoder.Token re-scans pending white
		// space after every refill: megabytes of it read in small pieces take minutes in a
		// correct streaming jpgo); the rest of the size comes from a string member
		e := r.Pick([]string{" ", "\n", " \t"})
		tail := pad
		if tail > 65536 {
			tail = 65536
		}
		head := `{"pad":"`
		fill := pad - tail - len(head) - 2
		if fill < 0 {
			return "{" + core + strings.Repeat(e, tail/len(e)+1)
		}
		return head + strings.Repeat("x", fill) + `",` + core + strings.Repeat(e, tail/len(e)+1)
	}
}

func invalidText(r *gen.Rng, valid string) string {
	switch r.Intn(11) {
	case 0:
		if len(valid) > 1 {
			return valid[:1+r.Intn(len(valid)-1)]
		}
		return ""
	case 1:
		return valid + r.Pick([]string{"x", "}", "]", ",", " null", " {}", "[1]", "\"s\"", " 1"})
	case 2:
		return valid + valid
	case 3:
		return ""
	case 4:
		return r.Pick([]string{"nul", "tru", "abc", "undefined", "NaN", "'s'", "{a:1}", "[1,]", "{\"a\":}", "01", "+1", ".5", "\"unterminated"})
	case 5:
		return r.Pick([]string{"[", "{", "[[1]", "{\"a\":[1}", "]", "}", "[1}}"})
	case 6:
		return "   \n\t "
	case 7:
		return "// comment\n" + valid
	case 8:
		// bytes around an otherwise valid text: BOMs, NUL, form feed — encoding/json rejects them
		return r.Pick([]string{"\xef\xbb\xbf", "\xff\xfe", "\xfe\xff", "\x00", "\x0c", "\x1e", "\ufeff", ")]}'\n", "\u00a0", "\u2028"}) + valid
	case 9:
		return valid + r.Pick([]string{"\x00", "\x1a", "\xef\xbb\xbf", "\x0c", ";", "\u00a0"})
	default:
		if len(valid) > 2 {
			k := r.Intn(len(valid))
			return valid[:k] + r.Pick([]string{"\x00", "}", "\"", ":", ",,"}) + valid[k:]
		}
		return "{"
	}
}

// genIOWorkload draws (expression, text).
func genIOWorkload(r *gen.Rng) (expr, text string) {
	// input text
	valid := gen.CanonicalDoc
	switch x := r.Intn(100); {
	case x < 25:
		valid = gen.CanonicalDoc
	case x < 55:
		valid = gen.Doc(r)
	case x < 70:
		valid = corpus[r.Intn(len(corpus))].Doc
	case x < 74:
		valid = r.Pick([]string{`{"id":9007199254740993,"items":[{"id":9007199254740993,"v":"x"},{"id":5,"v":"y"}],"nums":[9007199254740993,1e21,123456789012345678901234567890,0.1,1e-7,-0,4294967296,1.0,100e-2]}`,
			`{"nums":[18446744073709551616,9223372036854775807,-9223372036854775808,3.0,2.50,1E3],"objs":[{"k":9007199254740993,"s":"a"},{"k":9007199254740992,"s":"b"}],"n":9007199254740993}`})
	case x < 80:
		valid = r.Pick([]string{"{}", "[]", "null", "0", "\"s\"", "true", "[1,2,3]", "{\"a\":{\"b\":[1,{\"c\":\"é\\n\"}]}}", "-0.5e2", "{\"nums\":[3,1,2],\"s\":\"x\"}", "[[],[[]]]", " 7 ", "12345", "-17.25", "1234567890123", "31.4159e-1"})
	case x < 92:
		valid = bigText(r, []int{400, 520, 3000, 4090, 4200, 9000}[r.Intn(6)])
	default:
		valid = bigText(r, []int{65000, 66000, 131000, 200000}[r.Intn(4)])
	}
	text = indentJSON(r, valid)
	if r.Chance(1, 110) {
		// inputs just below / at / above sizes at which a program may switch strategy
		// (read everything vs. stream, stack buffer vs. heap, one block vs. several)
		text = paddedText(r, []int{1 << 16, 1 << 18, 1000000, 1 << 20, 2 << 20, 4 << 20}[r.Intn(6)])
	}
	if r.Chance(22, 100) {
		text = invalidText(r, text)
	}
	// expression
	switch x := r.Intn(100); {
	case x < 30:
		expr = systematic[r.Intn(len(systematic))]
	case x < 50:
		expr = gen.Expr(r)
	case x < 62:
		expr = corpus[r.Intn(len(corpus))].Expr
	case x < 72:
		expr = gen.BrokenExprs[r.Intn(len(gen.BrokenExprs))]
	case x < 78:
		expr = ioEvalErrExprs[r.Intn(len(ioEvalErrExprs))]
	case x < 82:
		expr = ioErrCombos[r.Intn(len(ioErrCombos))]
	case x < 86:
		expr = ioNumberExprs[r.Intn(len(ioNumberExprs))]
	case x < 92:
		expr = ioOddResultExprs[r.Intn(len(ioOddResultExprs))]
	default:
		expr = r.Pick([]string{"@", "nums", "objs[*].k", "length(@)", "sort_by(objs, &k)[0]", "nums[0]"})
	}
	if strings.HasPrefix(expr, "-") || expr == "" && r.Chance(1, 2) {
		expr = "@"
	}
	return
}

var chunkKs = []int{2, 3, 7, 512, 4096}

func baseCase(r *gen.Rng, expr, text string) IOCase {
	c := IOCase{Expr: expr, Text: text, Channel: "stdin", Chunk: "all", FailAfter: -1, StdoutFailAfter: -1}
	if r.Chance(1, 2) {
		c.Channel = "file"
		c.FileName = r.Pick([]string{"/tmp/data.json", "data.json", "./in put.json", "/nonexistent/dir/x", "-", "--", "-input", "stdin", "/dev/stdin", "é.json", "-h", "--help", "-help", "-ast", "--ast=false", "-v", "--version"})
		if strings.HasPrefix(c.FileName, "-") {
			c.StdinNoise = r.Pick([]string{"{\"other\":1}", "[]", "garbage", ""})
		}
		c.InputFlag = r.Pick([]string{"-input", "--input", "-input=", "--input="})
	}
	return c
}

func withChunk(c IOCase, r *gen.Rng, i int) IOCase {
	switch i % 5 {
	case 0:
		c.Chunk = "all"
	case 1:
		c.Chunk = "one"
		if len(c.Text) > 20000 {
			c.Chunk, c.K = "fixed", 7
		}
	case 2:
		c.Chunk, c.K = "fixed", chunkKs[r.Intn(len(chunkKs))]
	case 3:
		c.Chunk, c.ChunkSeed = "random", r.Next()
	case 4:
		c.Chunk, c.K = "fixed", chunkKs[r.Intn(3)]
	}
	return c
}

// plansFor lists the I/O plans explored for one workload. full: every hard-fault
// position for short inputs (thorough tier).
func plansFor(r *gen.Rng, expr, text string, full bool) []IOCase {
	var out []IOCase
	b := baseCase(r, expr, text)
	L := len(text)
	// fault-free: chunkings and benign reader behaviour
	for i := 0; i < 5; i++ {
		c := withChunk(b, r, i)
		if r.Chance(1, 3) {
			c.ZeroReadAt = []int{r.Intn(4)}
			if r.Chance(1, 3) {
				c.ZeroReadAt = append(c.ZeroReadAt, 1+r.Intn(6))
			}
		}
		c.EOFWithData = r.Chance(1, 3)
		out = append(out, c)
		if !full && i >= 2 {
			break
		}
	}
	// the other channel, fault-free
	o := b
	if b.Channel == "stdin" {
		o.Channel, o.FileName, o.InputFlag = "file", "/tmp/data.json", "-input"
	} else {
		o.Channel = "stdin"
	}
	out = append(out, withChunk(o, r, r.Intn(5)))
	// -input names a pipe: nothing to learn from Stat, the data arrives in pieces
	fi := withChunk(o, r, 1+r.Intn(4))
	fi.Channel, fi.Fifo = "file", true
	if fi.FileName == "" {
		fi.FileName, fi.InputFlag = r.Pick([]string{"/tmp/fifo", "/dev/stdin", "/dev/fd/63", "/proc/self/fd/0"}), "-input"
	}
	out = append(out, fi)
	// "--" before the expression; one time in three the expression looks like a flag
	dd := withChunk(b, r, r.Intn(5))
	dd.DashDash = true
	if r.Chance(1, 3) {
		dd.Expr = r.Pick([]string{"-h", "--help", "-help", "-ast", "-input", "-1", "--", "-", "-x.y"})
	}
	out = append(out, dd)
	// hard read faults
	var pos []int
	if full && L <= 64 {
		for k := 0; k <= L; k++ {
			pos = append(pos, k)
		}
	} else {
		for _, k := range []int{0, 1, 511, 512, 513, 4095, 4096, L - 1, L, L / 2} {
			if k >= 0 && k <= L {
				pos = append(pos, k)
			}
		}
		n := 2
		if full {
			n = 6
		}
		for i := 0; i < n && L > 0; i++ {
			pos = append(pos, r.Intn(L+1))
		}
		if !full && len(pos) > 5 {
			// a seeded subset in the quick tier
			for i := len(pos) - 1; i > 0; i-- {
				j := r.Intn(i + 1)
				pos[i], pos[j] = pos[j], pos[i]
			}
			pos = pos[:5]
		}
	}
	for _, k := range pos {
		chs := []IOCase{b}
		if full && L <= 64 {
			chs = []IOCase{b, o}
		}
		for _, base := range chs {
			nch := 1
			if full && L <= 64 {
				nch = 5
			}
			for i := 0; i < nch; i++ {
				c := withChunk(base, r, i+k)
				c.FailAfter = k
				out = append(out, c)
			}
		}
	}
	// transient read faults: one Read fails with EINTR / EAGAIN after k bytes, the next ones
	// deliver the rest (a program may give up or retry; if it carries on it must neither
	// lose nor repeat bytes)
	for i, k := range pos {
		if i >= 2 && !full {
			break
		}
		c := withChunk(b, r, i+k+1)
		c.FailAfter = k
		c.Transient = []string{"EINTR", "EAGAIN"}[(i+k)%2]
		out = append(out, c)
	}
	// open faults and channel confusion
	f := b
	f.Channel, f.FileName, f.InputFlag = "file", "/tmp/data.json", r.Pick([]string{"-input", "--input="})
	for _, of := range []string{"notexist", "perm", "isdir"} {
		c := f
		c.OpenFault = of
		if r.Chance(1, 2) {
			c.StdinNoise = text // a correct answer is available on stdin: it must not be used
		}
		out = append(out, c)
		if !full {
			break
		}
	}
	if !full {
		c := f
		c.OpenFault = []string{"notexist", "perm", "isdir"}[r.Intn(3)]
		c.StdinNoise = text
		out = append(out, c)
	}
	c := f
	c.StdinNoise = r.Pick([]string{"garbage", "{\"other\":1}", "[]", "{", text + " "})
	out = append(out, c)
	// output faults
	so := withChunk(b, r, 0)
	so.StdoutFailAfter = r.Intn(12)
	out = append(out, so)
	return out
}

// ---------------------------------------------------------------- worker

func ioWorker(tier string, master uint64, from, to int, maxWall time.Duration, replayDir, stage, jpgoBin string, perRun bool) *Stats {
	st := newStats()
	st.Prop, st.Tier, st.Seed, st.From, st.To = "C19", tier, master, from, to
	st.RaceBuild = simrt.RaceEnabled
	start := time.Now()
	iostats = ioStats{}
	full := tier == "thorough"
	seen := map[uint64]bool{}
	xcheck := 0
	xmismatch := ""
	xfaults := map[string]int{}
	for idx := from; idx < to; idx++ {
		if maxWall > 0 && time.Since(start) > maxWall {
			st.Truncated = true
			st.To = idx
			break
		}
		r := &gen.Rng{S: simrt.Mix(master^0xc19, uint64(idx))}
		progressRun(idx)
		expr, text := genIOWorkload(r)
		if full && idx%3 == 0 && len(text) > 64 {
			// the thorough tier enumerates all fault positions on short inputs
			text = r.Pick([]string{"{}", "[3,1,2]", "{\"nums\":[3,1,2],\"s\":\"é\"}", " {\"objs\":[{\"k\":2},{\"k\":1}]} ", "null", "[1,2", "{} x", "{\"a\":1}{\"a\":2}", "", "\"héllo\""})
		}
		cases := plansFor(r, expr, text, full)
		st.Runs++
		var rd uint64
		for ci := 0; ci < len(cases); ci++ {
			if maxWall > 0 && time.Since(start) > maxWall+45*time.Second {
				// one workload must not hold the check up (a changed jpgo may be quadratic in
				// the input size): the remaining plans of this workload are dropped
				st.Truncated = true
				break
			}
			c := &cases[ci]
			rep := runIOCase(c)
			if ci == 0 && len(lastEnvAsked) > 0 && len(c.Env) == 0 {
				// the program consults its environment: the same plain invocations with
				// those variables set to values that read as "off"
				names := append([]string{}, lastEnvAsked...)
				for v := 0; v < 2; v++ {
					e := cases[v%len(cases)]
					e.ZeroReadAt = nil
					e.Env = map[string]string{}
					same := envOffValues[r.Intn(len(envOffValues))]
					for _, n := range names {
						if v == 0 {
							e.Env[n] = same
						} else {
							e.Env[n] = envOffValues[r.Intn(len(envOffValues))]
						}
					}
					cases = append(cases, e)
				}
				c = &cases[ci]
			}
			d := hashStr(c.describe())
			rd = simrt.Mix(rd, d^uint64(len(rep.Violations)))
			nontrivial := c.FailAfter >= 0 || c.OpenFault != "" || c.StdoutFailAfter >= 0 || len(c.ZeroReadAt) > 0 || c.EOFWithData
			if nontrivial && !seen[d] {
				seen[d] = true
				st.Nontrivial++
			}
			if len(st.Samples) < 4 && (idx-from)%131 == 0 && ci%5 == 1 {
				st.Samples = append(st.Samples, map[string]interface{}{"case": c.describe(), "violations": len(rep.Violations)})
			}
			// stub cross-check against the real binary (fault-free cases only)
			if jpgoBin != "" && stage == "xcheck" && !c.Fifo && c.FailAfter < 0 && c.OpenFault == "" && c.StdoutFailAfter < 0 && len(c.Text) < 70000 && xmismatch == "" {
				if m := crossCheck(jpgoBin, c, replayDir); m != "" {
					xmismatch = m
				}
				xcheck++
			}
			if jpgoBin != "" && stage == "xcheck" && xmismatch == "" {
				if m, kind := crossCheckFault(jpgoBin, c, xcheck+len(xfaults)+ci); kind != "" {
					xfaults[kind]++
					if m != "" {
						xmismatch = m
					}
				}
			}
			var fresh *Violation
			for i := range rep.Violations {
				if k := isKnown(rep.Violations[i]); k != nil {
					st.KnownHits[k.Prop+"|"+k.Class+"|"+k.Sig]++
					continue
				}
				if fresh == nil {
					fresh = &rep.Violations[i]
				}
			}
			if fresh == nil {
				continue
			}
			rp := &Replay{Property: "C19", Class: fresh.Class, Signature: fresh.Sig, Detail: fresh.Detail, Engine: "simio", EngineVersion: engineVersion, MasterSeed: master, RunIndex: idx, IOCase: c}
			fullCopy := *rp
			rp.full = &fullCopy
			if min := minimiseIO(c, fresh.Class, fresh.Sig); min != nil {
				rp.IOCase, rp.Minimised = min, true
				if v := sameViolation(runIOCase(min).Violations, fresh.Class, fresh.Sig); v != nil {
					rp.Detail = v.Detail
				}
			}
			st.Violation = rp
			st.ReplayPath = writeReplay(replayDir, rp)
			break
		}
		st.Digest = simrt.Mix(st.Digest, rd)
		if perRun {
			st.DigestPerRun = append(st.DigestPerRun, rd)
		}
		if st.Violation != nil {
			break
		}
	}
	if xmismatch != "" {
		fatal2("stub cross-check failed: the in-process simulation and the real jpgo binary disagree: %s", xmismatch)
	}
	st.WallS = time.Since(start).Seconds()
	s := &iostats
	st.Steps = s.ioEvents
	st.Faults["hard_read_errors_delivered"] = uint64(s.hardErrs)
	st.Faults["hard_read_error_at_offset_0"] = uint64(s.errAtStart)
	st.Faults["hard_read_error_on_last_byte"] = uint64(s.errLastByte)
	st.Faults["hard_read_error_after_all_bytes_before_EOF"] = uint64(s.errAfterAll)
	st.Faults["transient_read_errors_EINTR_EAGAIN"] = uint64(s.transient)
	st.Faults["zero_byte_reads"] = uint64(s.zeroReads)
	st.Faults["short_reads"] = uint64(s.shortReads)
	st.Faults["data_returned_with_EOF"] = uint64(s.eofWithData)
	st.Faults["open_fault_cases"] = uint64(s.openFault)
	st.Faults["stdout_fault_cases"] = uint64(s.stdoutFault)
	st.Faults["stdin_noise_while_file_given"] = uint64(s.noise)
	st.Faults["environment_variables_set_to_off_values"] = uint64(s.envCases)
	st.Probes["cases"] = uint64(s.cases)
	st.Probes["fault_free_cases"] = uint64(s.faultFree)
	st.Probes["hard_fault_cases"] = uint64(s.hardFault)
	st.Probes["exit_0"] = uint64(s.exit0)
	st.Probes["exit_nonzero"] = uint64(s.exitN)
	st.Probes["expected_success"] = uint64(s.okExpected)
	st.Probes["invalid_expression"] = uint64(s.invalidExpr)
	st.Probes["invalid_input_text"] = uint64(s.invalidText)
	st.Probes["evaluation_error"] = uint64(s.evalErr)
	st.Probes["evaluation_panic"] = uint64(s.panics)
	st.Probes["unserialisable_result"] = uint64(s.serErr)
	st.Probes["input_bytes"] = s.bytes
	st.Probes["hard_fault_not_noticed_but_output_correct"] = uint64(s.faultIgnoredButCorrect)
	st.Probes["real_binary_cross_checks"] = uint64(xcheck)
	if stage == "xcheck" {
		st.Faults["real_binary_EIO_after_k_bytes_via_pty"] = uint64(xfaults["pty"])
		st.Faults["real_binary_stdin_is_a_directory"] = uint64(xfaults["stdin-is-directory"])
		st.Faults["real_binary_input_file_missing"] = uint64(xfaults["notexist"])
		st.Faults["real_binary_input_file_is_a_directory"] = uint64(xfaults["isdir"])
		st.Faults["real_binary_stdout_is_dev_full"] = uint64(xfaults["devfull"])
		if ptyUnavailable {
			st.Probes["pty_unavailable"] = 1
		}
	}
	st.Ops["cases"] = s.cases
	return st
}

// crossCheck runs the real jpgo binary on a fault-free case and compares exit
// status and canonical stdout with the in-process simulation.
func crossCheck(bin string, c *IOCase, dir string) string {
	sim := runJpgo(c)
	args := c.args()[1:]
	if c.Channel == "file" {
		tmp := filepath.Join(filepath.Dir(bin), fmt.Sprintf("xcheck-%d.json", os.Getpid()))
		if err := os.WriteFile(tmp, []byte(c.Text), 0644); err != nil {
			return ""
		}
		defer os.Remove(tmp)
		args = c.argsFor(tmp)[1:]
	}
	cmd := exec.Command(bin, args...)
	cmd.Env = c.envList()
	var so, se bytes.Buffer
	cmd.Stdout, cmd.Stderr = &so, &se
	stdin, err := cmd.StdinPipe()
	if err != nil {
		return ""
	}
	if err := cmd.Start(); err != nil {
		fatal2("cannot start real jpgo: %v", err)
	}
	data := []byte(c.Text)
	if c.Channel == "file" {
		data = []byte(c.StdinNoise)
	}
	// write in the planned chunk size (the kernel may coalesce; that is fine)
	k := len(data)
	if c.Chunk == "one" {
		k = 1
	} else if c.Chunk == "fixed" && c.K > 0 {
		k = c.K
	}
	for off := 0; off < len(data); {
		n := k
		if n <= 0 || off+n > len(data) {
			n = len(data) - off
		}
		if _, err := stdin.Write(data[off : off+n]); err != nil {
			break
		}
		off += n
	}
	stdin.Close()
	werr := cmd.Wait()
	exit := 0
	if werr != nil {
		if ee, ok := werr.(*exec.ExitError); ok {
			exit = ee.ExitCode()
		} else {
			return ""
		}
	}
	simCanon, simOK := canonJSON(sim.stdout)
	realCanon, realOK := canonJSON(so.Bytes())
	if exit != sim.exit || simOK != realOK || simCanon != realCanon || (len(bytes.TrimSpace(so.Bytes())) == 0) != (len(bytes.TrimSpace(sim.stdout)) == 0) {
		return fmt.Sprintf("case [%s]: real exit=%d stdout=%q, simulated exit=%d stdout=%q", c.describe(), exit, clip(so.Bytes()), sim.exit, clip(sim.stdout))
	}
	return ""
}

func minimiseIO(c0 *IOCase, class, sig string) *IOCase {
	budget := 400
	repro := func(c *IOCase) bool {
		if budget <= 0 {
			return false
		}
		budget--
		return sameViolation(runIOCase(c).Violations, class, sig) != nil
	}
	cur := *c0
	if !repro(&cur) {
		return nil
	}
	try := func(mod func(c *IOCase)) {
		c := cur
		c.ZeroReadAt = append([]int{}, cur.ZeroReadAt...)
		mod(&c)
		if repro(&c) {
			cur = c
		}
	}
	for round := 0; round < 3; round++ {
		try(func(c *IOCase) { c.ZeroReadAt = nil })
		try(func(c *IOCase) { c.EOFWithData = false })
		try(func(c *IOCase) { c.StdinNoise = "" })
		try(func(c *IOCase) { c.Env = nil })
		try(func(c *IOCase) { c.Chunk, c.K = "all", 0 })
		try(func(c *IOCase) { c.InputFlag = "-input" })
		if cur.FailAfter < 0 && cur.OpenFault == "" {
			try(func(c *IOCase) { c.Channel = "stdin" })
		}
		for _, t := range shrinkExpr(cur.Expr) {
			t := t
			try(func(c *IOCase) { c.Expr = t })
		}
		for _, t := range []string{"@", "nums", "a"} {
			t := t
			if len(t) < len(cur.Expr) {
				try(func(c *IOCase) { c.Expr = t })
			}
		}
		// shrink the text; keep the fault position meaningful
		for _, t := range append(shrinkJSON(cur.Text), "{}", "[]", "1", "") {
			t := t
			if len(t) >= len(cur.Text) {
				continue
			}
			try(func(c *IOCase) {
				c.Text = t
				if c.FailAfter > len(t) {
					c.FailAfter = len(t)
				}
			})
		}
		if cur.FailAfter > 0 {
			for _, k := range []int{0, 1, cur.FailAfter / 2, cur.FailAfter - 1} {
				k := k
				if k < cur.FailAfter {
					try(func(c *IOCase) { c.FailAfter = k })
				}
			}
		}
	}
	return &cur
}
