package main

import (
	"encoding/json"
	"flag"
	"fmt"
	"os"
	"runtime/pprof"
	"sort"
	"strings"
	"time"

	jmespath "github.com/jmespath/go-jmespath"
	"github.com/jmespath/go-jmespath/zzverifrt"

	"verifharness/gen"
	"verifharness/simrt"
)

const engineVersion = 1

func fatal2(format string, a ...interface{}) {
	fmt.Fprintf(os.Stderr, "simharness: "+format+"\n", a...)
	os.Exit(2)
}

type Known struct {
	Prop   string `json:"property"`
	Class  string `json:"class"`
	Sig    string `json:"signature"`
	Status string `json:"status"` // "known" suppresses; "fixed" never does
	What   string `json:"what"`
}

type Replay struct {
	Property      string          `json:"property"`
	Class         string          `json:"class"`
	Signature     string          `json:"signature"`
	Detail        string          `json:"detail"`
	Engine        string          `json:"engine"`
	EngineVersion int             `json:"engine_version"`
	MasterSeed    uint64          `json:"master_seed"`
	RunIndex      int             `json:"run_index"`
	Minimised     bool            `json:"minimised"`
	Workload      *Workload       `json:"workload,omitempty"`
	History       *History        `json:"history,omitempty"`
	IOCase        *IOCase         `json:"io_case,omitempty"`
	Races         []RaceReport    `json:"race_reports,omitempty"`
	Note          string          `json:"note,omitempty"`
	Extra         json.RawMessage `json:"extra,omitempty"`
	full          *Replay
}

type Stats struct {
	Prop         string            `json:"property"`
	Tier         string            `json:"tier"`
	Seed         uint64            `json:"seed"`
	From         int               `json:"from"`
	To           int               `json:"to"`
	Runs         int               `json:"runs"`
	Steps        uint64            `json:"sim_steps"`
	Transfers    uint64            `json:"transfers"`
	Nontrivial   int               `json:"distinct_nontrivial"`
	PolicyRuns   map[string]int    `json:"policy_runs"`
	ModeRuns     map[string]int    `json:"mode_runs"`
	Faults       map[string]uint64 `json:"fault_counts"`
	Probes       map[string]uint64 `json:"probes"`
	Ops          map[string]int    `json:"op_outcomes"`
	Sites2       int               `json:"sites_under_concurrency"`
	SitesTotal   int               `json:"sites_total"`
	SitePairs    int               `json:"switch_site_pairs"`
	RaceReports  int               `json:"race_reports"`
	Samples      []interface{}     `json:"samples"`
	KnownHits    map[string]int    `json:"known_hits"`
	Violation    *Replay           `json:"violation,omitempty"`
	ReplayPath   string            `json:"replay_path,omitempty"`
	WallS        float64           `json:"wall_s"`
	Digest       uint64            `json:"digest"`
	Truncated    bool              `json:"truncated_by_time"`
	SitesHit     []int             `json:"sites_hit,omitempty"`
	SlowestMs    float64           `json:"slowest_run_ms"`
	SlowestRun   string            `json:"slowest_run,omitempty"`
	RaceBuild    bool              `json:"race_build"`
	DigestPerRun []uint64          `json:"digest_per_run,omitempty"`
}

func newStats() *Stats {
	return &Stats{PolicyRuns: map[string]int{}, ModeRuns: map[string]int{}, Faults: map[string]uint64{}, Probes: map[string]uint64{}, Ops: map[string]int{}, KnownHits: map[string]int{}}
}

// ---------------------------------------------------------------- corpus

type CorpusCase struct {
	File  string  `json:"file"`
	Doc   string  `json:"doc"`
	Expr  string  `json:"expr"`
	Error *string `json:"error"`
}

var (
	corpus      []CorpusCase
	corpusByDoc map[string][]int
	systematic  []string
)

func loadCorpus(path string) {
	b, err := os.ReadFile(path)
	if err != nil {
		fatal2("corpus: %v", err)
	}
	if err := json.Unmarshal(b, &corpus); err != nil {
		fatal2("corpus: %v", err)
	}
	corpusByDoc = map[string][]int{}
	for i, c := range corpus {
		corpusByDoc[c.Doc] = append(corpusByDoc[c.Doc], i)
	}
	systematic = append(gen.Systematic(), extraExprs...)
}

var extraExprs []string

func compiles(expr string) (ok bool) {
	defer func() {
		if recover() != nil {
			ok = false
		}
	}()
	_, err := jmespath.Compile(expr)
	return err == nil
}

// ---------------------------------------------------------------- workload generation (C06 / C12)

func drawSched(r *gen.Rng, forcePolicy int) SchedSpec {
	sp := SchedSpec{Seed: r.Next(), First: -1}
	pol := forcePolicy
	if pol < 0 {
		switch x := r.Intn(100); {
		case x < 8:
			pol = int(simrt.PolNone)
		case x < 43:
			pol = int(simrt.PolBernoulli)
		case x < 63:
			pol = int(simrt.PolPCT)
		case x < 85:
			pol = int(simrt.PolSiteBiased)
		default:
			pol = int(simrt.PolRoundRobin)
		}
	}
	sp.Policy = pol
	switch simrt.Policy(pol) {
	case simrt.PolBernoulli:
		sp.P = []uint32{16384, 4096, 1024, 256}[r.Intn(4)]
	case simrt.PolPCT:
		sp.PCTDepth = 1 + r.Intn(3)
	case simrt.PolSiteBiased:
		sp.PHigh = []uint32{32768, 16384}[r.Intn(2)]
		sp.PLow = []uint32{1024, 256}[r.Intn(2)]
	case simrt.PolRoundRobin:
		sp.Quantum = []uint64{1, 2, 5, 20}[r.Intn(4)]
	}
	return sp
}

func pickExprDoc(r *gen.Rng) (exprs []string, doc DocSpec, src string) {
	switch x := r.Intn(100); {
	case x < 50:
		n := 1 + r.Intn(3)
		for i := 0; i < n; i++ {
			exprs = append(exprs, gen.Expr(r))
		}
		if r.Chance(1, 25) {
			exprs[0] = gen.DeepValid(r)
		}
		if r.Chance(1, 10) {
			exprs = append(exprs, r.Pick([]string{"nums == nums", "objs == objs", "o1 == o2", "nums == `[3,1,2]`", "objs[?k == `1`]", "objs[?t == `[]`]", "mixed[?k != `1`]", "nested[?@ == `[3]`]", "[nums, objs] == [nums, objs]", "o1.b.c != nums"}))
		}
		return exprs, DocSpec{Kind: "json", Text: gen.DocFor(r, strings.Join(exprs, " ")), CapSeed: r.Next() | 1, GoNums: goNumSeed(r)}, "random"
	case x < 70:
		n := 1 + r.Intn(3)
		for i := 0; i < n; i++ {
			exprs = append(exprs, systematic[r.Intn(len(systematic))])
			if r.Chance(1, 14) {
				exprs[i] = gen.CaseFlip(r, exprs[i])
			}
		}
		return exprs, DocSpec{Kind: "json", Text: gen.DocFor(r, strings.Join(exprs, " ")), CapSeed: r.Next() | 1, GoNums: goNumSeed(r)}, "systematic-random"
	case x < 90:
		c := corpus[r.Intn(len(corpus))]
		exprs = append(exprs, c.Expr)
		same := corpusByDoc[c.Doc]
		for i := r.Intn(3); i > 0; i-- {
			exprs = append(exprs, corpus[same[r.Intn(len(same))]].Expr)
		}
		return exprs, DocSpec{Kind: "json", Text: c.Doc, CapSeed: r.Next() | 1, GoNums: goNumSeed(r)}, "compliance"
	default:
		n := 1 + r.Intn(3)
		for i := 0; i < n; i++ {
			exprs = append(exprs, typedExprs[r.Intn(len(typedExprs))])
		}
		return exprs, DocSpec{Kind: "typed", Name: typedDocNames[r.Intn(len(typedDocNames))], CapSeed: typedSeed(r)}, "typed"
	}
}

var clockJumps = []int64{1e6, 1e9, 61e9, 3601e9, 90000e9, 400 * 86400e9}

// addClockFaults: in one run out of five the simulated clock jumps forward (1 ms … 400 days)
// before some operations — harmless unless the code under test reads the clock.
func addClockFaults(w *Workload, master uint64, idx int) {
	r := &gen.Rng{S: simrt.Mix(master^0xc10c, uint64(idx))}
	if !r.Chance(1, 5) {
		return
	}
	for ci := range w.Clients {
		for oi := range w.Clients[ci] {
			if r.Chance(1, 4) {
				w.Clients[ci][oi].Jump = clockJumps[r.Intn(len(clockJumps))]
			}
		}
	}
}

// typedSeed: 0/1 = the small fixed typed documents, otherwise seeded sizes.
func typedSeed(r *gen.Rng) uint64 {
	if r.Chance(1, 3) {
		return 1
	}
	return r.Next() | 2
}

// goNumSeed: one document in twelve is "hand built" (Go ints, json.Number leaves).
func goNumSeed(r *gen.Rng) uint64 {
	if r.Chance(1, 12) {
		return r.Next() | 1
	}
	return 0
}

func opKind(r *gen.Rng, expr string) string {
	k := "search"
	switch x := r.Intn(10); {
	case x < 6:
		k = "search"
	case x < 9:
		k = "oneshot"
	default:
		k = "compile_search"
		if r.Chance(1, 3) {
			k = "mustcompile_search"
		}
	}
	if k == "search" && !compiles(expr) {
		k = "oneshot"
	}
	return k
}

func genC06(master uint64, idx int) *Workload {
	r := &gen.Rng{S: simrt.Mix(master, uint64(idx))}
	w := &Workload{Prop: "C06", Observer: true, MapSalt: r.Next(), MapPolicy: r.Intn(4) % 3}
	forcePol := -1
	if idx < 2*len(systematic) {
		// the systematic table, once sequentially and once under a preempting policy
		w.Exprs = []string{systematic[idx/2]}
		text := gen.CanonicalDoc
		if idx%2 == 1 {
			text = gen.DocFor(r, systematic[idx/2])
		}
		w.Docs = []DocSpec{{Kind: "json", Text: text, CapSeed: r.Next() | 1}}
		w.Mode = "systematic"
		if idx%2 == 0 {
			forcePol = int(simrt.PolNone)
		} else {
			forcePol = []int{int(simrt.PolBernoulli), int(simrt.PolPCT), int(simrt.PolSiteBiased), int(simrt.PolRoundRobin)}[r.Intn(4)]
		}
	} else {
		var d DocSpec
		w.Exprs, d, w.Mode = pickExprDoc(r)
		w.Docs = []DocSpec{d}
	}
	nc := 1 + r.Intn(3)
	if r.Chance(1, 10) {
		nc = 4
	}
	for c := 0; c < nc; c++ {
		var ops []Op
		for o := 1 + r.Intn(3); o > 0; o-- {
			ei := r.Intn(len(w.Exprs))
			ops = append(ops, Op{Kind: opKind(r, w.Exprs[ei]), Expr: ei, Doc: 0})
		}
		w.Clients = append(w.Clients, ops)
	}
	w.Sched = drawSched(r, forcePol)
	p := simrt.Policy(w.Sched.Policy)
	w.HashEvery = p == simrt.PolNone || p == simrt.PolPCT || r.Chance(1, 4)
	return w
}

// heavyDocs: some document of the workload is larger than 60 KB of JSON text.
func heavyDocs(ds []DocSpec) bool {
	for _, d := range ds {
		if len(d.Text) > 60000 {
			return true
		}
	}
	return false
}

var c12Modes = []string{"shared-expr-shared-doc", "shared-expr-private-docs", "diff-exprs-one-doc", "compile-same", "compile-diff", "compile-vs-search", "oneshot-mix", "parse-mix", "many-searches", "many-exprs"}

func genC12(master uint64, idx int) *Workload {
	r := &gen.Rng{S: simrt.Mix(master, uint64(idx))}
	w := &Workload{Prop: "C12", MapSalt: r.Next(), MapPolicy: r.Intn(4) % 3}
	forcePol := -1
	var d DocSpec
	var src string
	if idx < 2*len(systematic) {
		w.Exprs = []string{systematic[idx/2]}
		text := gen.CanonicalDoc
		if idx%2 == 1 {
			text = gen.DocFor(r, systematic[idx/2])
		}
		d = DocSpec{Kind: "json", Text: text, CapSeed: r.Next() | 1}
		src = "systematic"
		if idx%2 == 0 {
			forcePol = int(simrt.PolNone)
		} else {
			forcePol = []int{int(simrt.PolBernoulli), int(simrt.PolPCT), int(simrt.PolSiteBiased), int(simrt.PolRoundRobin)}[r.Intn(4)]
		}
		w.Mode = c12Modes[(idx/2)%3]
	} else {
		w.Exprs, d, src = pickExprDoc(r)
		w.Mode = c12Modes[r.Intn(len(c12Modes))]
		if (w.Mode == "many-exprs" || w.Mode == "many-searches") && r.Chance(1, 2) {
			w.Mode = c12Modes[r.Intn(len(c12Modes)-2)] // long runs: half the weight
		}
	}
	_ = src
	nc := 2 + r.Intn(3)
	nops := func() int { return 1 + r.Intn(3) }
	if idx >= 2*len(systematic) && r.Chance(1, 10) {
		// a crowd: 5-8 callers in flight at once (bounded free lists, semaphores and queues
		// sized for "a few" concurrent calls)
		nc = 5 + r.Intn(4)
		nops = func() int { return 1 + r.Intn(2) }
	}
	switch w.Mode {
	case "shared-expr-shared-doc":
		w.Docs = []DocSpec{d}
		if !compiles(w.Exprs[0]) {
			w.Mode = "compile-same"
			break
		}
		for c := 0; c < nc; c++ {
			var ops []Op
			for o := nops(); o > 0; o-- {
				ops = append(ops, Op{Kind: "search", Expr: 0, Doc: 0})
			}
			w.Clients = append(w.Clients, ops)
		}
	case "shared-expr-private-docs":
		if !compiles(w.Exprs[0]) {
			w.Mode = "compile-same"
			w.Docs = []DocSpec{d}
			break
		}
		for c := 0; c < nc; c++ {
			dc := d
			if d.Kind == "json" && r.Chance(1, 2) && src != "compliance" {
				dc.Text = gen.DocFor(r, w.Exprs[0])
			}
			dc.CapSeed = r.Next() | 1
			if d.Kind == "typed" && r.Chance(2, 3) {
				// documents of DIFFERENT Go types behind one compiled expression
				dc.Name = typedDocNames[r.Intn(len(typedDocNames))]
				dc.CapSeed = typedSeed(r)
			}
			w.Docs = append(w.Docs, dc)
			var ops []Op
			for o := nops(); o > 0; o-- {
				ops = append(ops, Op{Kind: "search", Expr: 0, Doc: c})
			}
			w.Clients = append(w.Clients, ops)
		}
	case "diff-exprs-one-doc":
		w.Docs = []DocSpec{d}
		for len(w.Exprs) < 2 {
			w.Exprs = append(w.Exprs, gen.Expr(r))
		}
		for c := 0; c < nc; c++ {
			var ops []Op
			for o := nops(); o > 0; o-- {
				ei := (c + r.Intn(2)) % len(w.Exprs)
				ops = append(ops, Op{Kind: opKind(r, w.Exprs[ei]), Expr: ei, Doc: 0})
			}
			w.Clients = append(w.Clients, ops)
		}
	case "compile-vs-search":
		w.Docs = []DocSpec{d}
		if !compiles(w.Exprs[0]) {
			w.Mode = "compile-same"
			break
		}
		w.Exprs = append(w.Exprs, gen.BrokenExprs[r.Intn(len(gen.BrokenExprs))])
		for c := 0; c < nc; c++ {
			var ops []Op
			for o := nops(); o > 0; o-- {
				if c%2 == 0 {
					ops = append(ops, Op{Kind: "search", Expr: 0, Doc: 0})
				} else {
					ei := r.Intn(len(w.Exprs))
					ops = append(ops, Op{Kind: []string{"compile_search", "parse", "oneshot", "mustcompile_search"}[r.Intn(4)], Expr: ei, Doc: 0})
				}
			}
			w.Clients = append(w.Clients, ops)
		}
	case "oneshot-mix":
		w.Docs = []DocSpec{d}
		for c := 0; c < nc; c++ {
			var ops []Op
			for o := nops(); o > 0; o-- {
				ops = append(ops, Op{Kind: "oneshot", Expr: r.Intn(len(w.Exprs)), Doc: 0})
			}
			w.Clients = append(w.Clients, ops)
		}
	case "many-searches":
		// one shared compiled expression searched hundreds of times by 3-4 clients over a
		// few documents (call-count thresholds, adaptive paths, counters that wrap)
		if !compiles(w.Exprs[0]) {
			w.Mode = "compile-same"
			w.Docs = []DocSpec{d}
			break
		}
		w.Docs = []DocSpec{d}
		for i := r.Intn(3); i > 0; i-- {
			dc := d
			if d.Kind == "json" && src != "compliance" {
				dc.Text = gen.DocFor(r, w.Exprs[0])
			}
			dc.CapSeed = r.Next() | 1
			if d.Kind == "typed" {
				dc.Name = typedDocNames[r.Intn(len(typedDocNames))]
				dc.CapSeed = typedSeed(r)
			}
			w.Docs = append(w.Docs, dc)
		}
		nc = 3 + r.Intn(2)
		for c := 0; c < nc; c++ {
			var ops []Op
			no := 30 + r.Intn(50)
			if heavyDocs(w.Docs) {
				no = 3 + r.Intn(4) // very large documents: a few searches are a long run already
			}
			for o := no; o > 0; o-- {
				ops = append(ops, Op{Kind: "search", Expr: 0, Doc: r.Intn(len(w.Docs))})
			}
			w.Clients = append(w.Clients, ops)
		}
	case "many-exprs":
		// dozens of distinct cheap expressions in circulation (bounded caches with
		// eviction, interning tables): 3-4 clients x 10-14 operations
		w.Docs = []DocSpec{d}
		n := 34 + r.Intn(30)
		if r.Chance(1, 4) {
			n = 10 + r.Intn(20) // small caches
		}
		huge := r.Chance(1, 14)
		if huge {
			n = []int{140, 270, 530, 1040, 1100}[r.Intn(5)] // past 128 / 256 / 512 / 1024 entries
		}
		// just past a likely capacity, accessed at random: hits on old entries and evicting
		// misses keep alternating (lookup and use in two critical sections, stale index
		// entries, slots recycled under a reader)
		around := !huge && r.Chance(1, 5)
		if around {
			c := []int{16, 32, 64, 128, 256}[r.Intn(5)]
			n = c + 1 + r.Intn(c/4+2)
		}
		for i := 0; len(w.Exprs) < n; i++ {
			switch r.Intn(5) {
			case 0:
				w.Exprs = append(w.Exprs, fmt.Sprintf("`%d`", i))
			case 1:
				w.Exprs = append(w.Exprs, fmt.Sprintf("nums[%d]", i-5))
			case 2:
				w.Exprs = append(w.Exprs, fmt.Sprintf("objs[%d].k", i-3))
			case 3:
				w.Exprs = append(w.Exprs, fmt.Sprintf("'s%d'", i))
			default:
				w.Exprs = append(w.Exprs, fmt.Sprintf("[`%d`, length(strs)]", i))
			}
		}
		nc = 3 + r.Intn(2)
		for c := 0; c < nc; c++ {
			nops := 24 + r.Intn(24)
			if around {
				nops = n/2 + r.Intn(n)
			}
			var ops []Op
			if huge {
				// fill phase: this client's share of the expressions, each once; then a hot set
				// shared by all clients (entries that survive an eviction sweep get hit by several)
				for ei := c; ei < len(w.Exprs); ei += nc {
					ops = append(ops, Op{Kind: "oneshot", Expr: ei, Doc: 0})
				}
				for o := 0; o < 40; o++ {
					ops = append(ops, Op{Kind: "oneshot", Expr: (o*37 + c) % 12 * (len(w.Exprs) / 12), Doc: 0})
				}
				w.Clients = append(w.Clients, ops)
				continue
			}
			for o := nops; o > 0; o-- {
				k := "oneshot"
				if r.Chance(1, 8) {
					k = "compile_search"
				}
				ops = append(ops, Op{Kind: k, Expr: r.Intn(len(w.Exprs)), Doc: 0})
			}
			w.Clients = append(w.Clients, ops)
		}
	case "parse-mix", "compile-diff":
		w.Docs = []DocSpec{d}
		w.Exprs = append(w.Exprs, gen.BrokenExprs[r.Intn(len(gen.BrokenExprs))], gen.Expr(r))
		for c := 0; c < nc; c++ {
			var ops []Op
			for o := nops(); o > 0; o-- {
				k := "parse"
				if w.Mode == "compile-diff" {
					k = "compile_search"
				}
				ops = append(ops, Op{Kind: k, Expr: r.Intn(len(w.Exprs)), Doc: 0})
			}
			w.Clients = append(w.Clients, ops)
		}
	}
	if w.Mode == "compile-same" {
		if len(w.Docs) == 0 {
			w.Docs = []DocSpec{d}
		}
		w.Clients = nil
		for c := 0; c < nc; c++ {
			var ops []Op
			for o := nops(); o > 0; o-- {
				ops = append(ops, Op{Kind: []string{"compile_search", "compile_search", "parse"}[r.Intn(3)], Expr: 0, Doc: 0})
			}
			w.Clients = append(w.Clients, ops)
		}
	}
	w.Sched = drawSched(r, forcePol)
	return w
}

// ---------------------------------------------------------------- known findings

var knownList []Known

func loadKnown(path string) {
	if path == "" {
		return
	}
	b, err := os.ReadFile(path)
	if err != nil {
		fatal2("known findings: %v", err)
	}
	var f struct {
		Findings []Known `json:"findings"`
	}
	if err := json.Unmarshal(b, &f); err != nil {
		fatal2("known findings: %v", err)
	}
	knownList = f.Findings
}

func isKnown(v Violation) *Known {
	for i := range knownList {
		k := &knownList[i]
		if k.Status == "known" && k.Prop == v.Prop && k.Class == v.Class && k.Sig == v.Sig {
			return k
		}
	}
	return nil
}

// ---------------------------------------------------------------- worker loop for the scheduler engine

func sameViolation(vs []Violation, class, sig string) *Violation {
	for i := range vs {
		if classEq(vs[i].Class, class) && (vs[i].Sig == sig || sig == "") {
			return &vs[i]
		}
	}
	return nil
}

// classEq: porcupine's attribution of a mismatch may change while a trace is being
// shrunk; all mismatch classes denote the same violation of C12.
func classEq(a, b string) bool {
	return a == b || strings.HasPrefix(a, "mismatch") && strings.HasPrefix(b, "mismatch")
}

// refine re-executes a run under its own recorded schedule with per-step hashing so
// that a document write detected at a context switch is pinned to its statement.
func refine(w *Workload, rep *RunReport) (*Workload, *RunReport) {
	w2 := *w
	w2.UseForced = true
	w2.Forced = rep.Out.Events
	w2.Sched.First = rep.Out.First
	w2.HashEvery = true
	w2.ExactHash = true
	rep2 := runSched(&w2)
	return &w2, rep2
}

func accountRun(st *Stats, w *Workload, rep *RunReport, seen map[uint64]bool) {
	st.Runs++
	o := rep.Out
	st.Steps += o.Steps
	st.Transfers += uint64(len(o.Events))
	if w.UseForced {
		st.PolicyRuns["single-preemption-sweep"]++
	} else {
		st.PolicyRuns[simrt.Policy(w.Sched.Policy).String()]++
	}
	st.ModeRuns[w.Mode]++
	st.Faults["preemptions"] += uint64(o.Preemptions)
	st.Faults["fairness_guard_switches"] += uint64(o.Starved)
	st.Faults["lock_deadlocks_detected"] += uint64(o.Deadlocks)
	st.Faults["library_goroutines_run_as_clients"] += uint64(o.Spawned)
	if o.Aborted {
		st.Probes["runs_abandoned_goroutine_capacity"]++
	}
	for _, ops := range w.Clients {
		for _, op := range ops {
			if op.Jump != 0 {
				st.Faults["clock_jumps_forward"]++
			}
		}
	}
	if o.First != 0 {
		st.Faults["start_skew_runs"]++
	}
	st.Ops["value"] += rep.ValOps
	st.Ops["error"] += rep.ErrOps
	st.Ops["panic"] += rep.PanicOps
	st.RaceReports += rep.RaceDelta
	if w.Prop == "C06" {
		st.Probes["observer_turns"] += uint64(rep.ObsTurns)
		st.Probes["observer_turns_while_search_in_flight"] += uint64(rep.ObsInFlight)
		st.Probes["doc_hash_checks"] += rep.HashChecks
	}
	// longest stretch one client was kept off the CPU while live (stalled node)
	parked := map[int]int32{}
	var maxStall uint64
	lastRun := map[int]uint64{}
	var g uint64
	for _, ev := range o.Events {
		g++
		if !ev.Finish {
			parked[ev.Client] = ev.Site
			fn := siteFunc(ev.Site)
			if strings.Contains(fn, ".Less") || strings.Contains(fn, ".Swap") {
				st.Probes["preempted_inside_sort_comparator"]++
			}
			if ev.Site >= 0 && int(ev.Site) < len(siteWrite) && siteWrite[ev.Site] {
				st.Probes["preempted_at_writeish_statement"]++
			}
			if ps, ok := parked[ev.To]; ok && ps >= 0 && ev.Site >= 0 && siteFunc(ps) == fn {
				st.Probes["two_clients_inside_same_function"]++
			}
			if strings.HasPrefix(fn, "jpf") || strings.HasPrefix(fn, "(*byExpr") {
				st.Probes["preempted_inside_builtin"]++
			}
			if strings.Contains(fn, "Lexer") || strings.Contains(fn, "Parser") {
				st.Probes["preempted_inside_lexer_or_parser"]++
			}
		}
		if lr, ok := lastRun[ev.To]; ok && g-lr > maxStall {
			maxStall = g - lr
		}
		lastRun[ev.Client] = g
	}
	if maxStall >= 8 {
		st.Faults["long_stall_runs"]++
	}
	if o.Preemptions > 0 {
		d := simrt.Mix(o.Digest, hashStr(w.describe()))
		if !seen[d] {
			seen[d] = true
			st.Nontrivial++
		}
	}
	st.Digest = simrt.Mix(st.Digest, o.Digest^uint64(rep.RaceDelta)<<1^outcomeDigest(rep))
}

func outcomeDigest(rep *RunReport) uint64 {
	h := uint64(7)
	for ci := range rep.Outcomes {
		for oi := range rep.Outcomes[ci] {
			o := &rep.Outcomes[ci][oi]
			h = simrt.Mix(h, hashStr(o.Kind+"|"+o.ErrType+"|"+render(o.Val)))
		}
	}
	return h
}

func sampleOf(w *Workload, rep *RunReport) interface{} {
	var outs []string
	for ci := range rep.Outcomes {
		for oi := range rep.Outcomes[ci] {
			s := rep.Outcomes[ci][oi].String()
			if len(s) > 120 {
				s = s[:120] + "…"
			}
			outs = append(outs, fmt.Sprintf("c%d.%d: %s", ci, oi, s))
		}
	}
	ev := rep.Out.Events
	if len(ev) > 12 {
		ev = ev[:12]
	}
	return map[string]interface{}{
		"workload": w.describe(), "policy": simrt.Policy(w.Sched.Policy).String(), "sched_seed": w.Sched.Seed, "map_policy": w.MapPolicy,
		"steps": rep.Out.Steps, "preemptions": rep.Out.Preemptions, "first_transfers": ev, "schedule_digest": fmt.Sprintf("%016x", rep.Out.Digest),
		"outcomes": outs, "hash_every_step": w.HashEvery, "race_reports": rep.RaceDelta,
	}
}

// sweepWorkloads (S5, thorough tier): for one systematic expression, two clients on one
// shared compiled expression and one shared document; client 0 is preempted exactly
// once, at its k-th step for every k, client 1 then runs to completion ("B happens
// atomically in the middle of A"), then client 0 resumes.
func sweepWorkloads(prop string, master uint64, idx int) []*Workload {
	if idx >= len(systematic) {
		return nil
	}
	expr := systematic[idx]
	r := &gen.Rng{S: simrt.Mix(master^0x55, uint64(idx))}
	kind := "search"
	if !compiles(expr) {
		kind = "oneshot"
	}
	base := &Workload{Prop: prop, Mode: "sweep", Exprs: []string{expr}, Docs: []DocSpec{{Kind: "json", Text: gen.CanonicalDoc, CapSeed: r.Next() | 1}},
		Clients: [][]Op{{{Kind: kind, Expr: 0, Doc: 0}}, {{Kind: kind, Expr: 0, Doc: 0}}}, Observer: prop == "C06", MapSalt: r.Next(), MapPolicy: idx % 3,
		HashEvery: true, Sched: SchedSpec{Policy: int(simrt.PolNone), First: 0}}
	probe := runSched(base)
	k := int(probe.Out.ClientSteps[0])
	if k > 600 {
		k = 600
	}
	out := []*Workload{base}
	for i := 1; i <= k; i++ {
		w := cloneWorkload(base)
		w.UseForced = true
		w.Forced = []simrt.Event{{Client: 0, LStep: uint64(i), To: 1}, {Client: 1, Finish: true, To: 0}}
		out = append(out, w)
	}
	return out
}

func schedWorker(prop, tier string, master uint64, from, to int, maxWall time.Duration, replayDir string, perRun bool, stage string) *Stats {
	st := newStats()
	st.Prop, st.Tier, st.Seed, st.From, st.To = prop, tier, master, from, to
	st.RaceBuild = simrt.RaceEnabled
	st.SitesTotal = len(siteTable)
	seen := map[uint64]bool{}
	start := time.Now()
	for idx := from; idx < to; idx++ {
		if maxWall > 0 && time.Since(start) > maxWall {
			st.Truncated = true
			st.To = idx
			break
		}
		var ws []*Workload
		if stage == "sweep" {
			ws = sweepWorkloads(prop, master, idx)
			if ws == nil {
				st.To = idx
				break
			}
		} else if prop == "C06" {
			ws = []*Workload{genC06(master, idx)}
		} else {
			ws = []*Workload{genC12(master, idx)}
		}
		if stage != "sweep" {
			addClockFaults(ws[0], master, idx)
		}
		for _, w := range ws {
			progressRun(idx)
			if os.Getenv("VERIF_TRACE_RUNS") != "" {
				d := w.describe()
				if len(d) > 400 {
					d = d[:400] + "…"
				}
				sz := 0
				for _, dc := range w.Docs {
					sz += len(dc.Text)
				}
				fmt.Fprintf(os.Stderr, "run %d (%s, policy %s, hash_every=%v, docs %d bytes): %s\n", idx, w.Mode, simrt.Policy(w.Sched.Policy), w.HashEvery, sz, d)
			}
			t0 := time.Now()
			rep := runSched(w)
			if os.Getenv("VERIF_TRACE_RUNS") != "" {
				fmt.Fprintf(os.Stderr, "  -> %d steps, %d preemptions, %d events, quantum %d, P %d, est %d, checks %d, %.0f ms\n", rep.Out.Steps, rep.Out.Preemptions, len(rep.Out.Events), w.Sched.Quantum, w.Sched.P, w.Sched.EstSteps, wt.checks, float64(time.Since(t0).Microseconds())/1000)
			}
			if ms := float64(time.Since(t0).Microseconds()) / 1000; ms > st.SlowestMs {
				st.SlowestMs = ms
				d := w.describe()
				if len(d) > 300 {
					d = d[:300] + "…"
				}
				st.SlowestRun = fmt.Sprintf("run %d (%s, policy %s, hash_every=%v, %d steps): %s", idx, w.Mode, simrt.Policy(w.Sched.Policy), w.HashEvery, rep.Out.Steps, d)
			}
			progressPhase(3)
			accountRun(st, w, rep, seen)
			if perRun {
				st.DigestPerRun = append(st.DigestPerRun, simrt.Mix(rep.Out.Digest, outcomeDigest(rep)^uint64(rep.RaceDelta)))
			}
			if len(st.Samples) < 3 && rep.Out.Preemptions > 0 && (idx-from)%97 == 0 || len(st.Samples) == 0 && idx == to-1 {
				st.Samples = append(st.Samples, sampleOf(w, rep))
			}
			if len(rep.Violations) == 0 {
				continue
			}
			// a document write seen only at a context switch: pin it
			if prop == "C06" && !w.HashEvery {
				w2, rep2 := refine(w, rep)
				if len(rep2.Violations) > 0 {
					w, rep = w2, rep2
				}
			}
			var fresh *Violation
			for i := range rep.Violations {
				v := rep.Violations[i]
				if k := isKnown(v); k != nil {
					st.KnownHits[k.Prop+"|"+k.Class+"|"+k.Sig]++
					continue
				}
				if fresh == nil {
					fresh = &rep.Violations[i]
				}
			}
			if fresh == nil {
				continue
			}
			// prefer the most specific class for reporting
			for i := range rep.Violations {
				v := &rep.Violations[i]
				if isKnown(*v) == nil && v.Class == "doc-write" && v.Sig != "?" {
					fresh = v
					break
				}
			}
			rp := buildSchedReplay(w, rep, fresh, master, idx)
			st.Violation = rp
			st.ReplayPath = writeReplay(replayDir, rp)
			break
		}
		if st.Violation != nil {
			break
		}
	}
	st.WallS = time.Since(start).Seconds()
	st.Sites2, st.SitePairs = simrt.CoverageCounts()
	st.SitesHit = simrt.SitesHit()
	return st
}

func buildSchedReplay(w *Workload, rep *RunReport, v *Violation, master uint64, idx int) *Replay {
	// freeze the schedule actually taken
	fw := *w
	fw.UseForced = true
	fw.Forced = rep.Out.Events
	fw.Sched.First = rep.Out.First
	rp := &Replay{Property: v.Prop, Class: v.Class, Signature: v.Sig, Detail: v.Detail, Engine: "simsched", EngineVersion: engineVersion,
		MasterSeed: master, RunIndex: idx, Workload: &fw, Races: rep.Races}
	// confirm that the frozen schedule reproduces, then minimise
	chk := runSched(&fw)
	if sameViolation(chk.Violations, v.Class, v.Sig) == nil {
		// fall back to the generating seed (deterministic function of tree, seed, index)
		ow := *w
		rp.Workload = &ow
		rp.Note = "frozen schedule did not reproduce the violation; replay re-executes the seeded run"
		return rp
	}
	fullCopy := *rp
	rp.full = &fullCopy
	min := minimiseSched(&fw, v.Class, v.Sig)
	if min != nil {
		chk2 := runSched(min)
		if vv := sameViolation(chk2.Violations, v.Class, v.Sig); vv != nil {
			rp.Workload = min
			rp.Minimised = true
			rp.Detail = vv.Detail
			rp.Races = chk2.Races
		}
	}
	return rp
}

func writeReplay(dir string, rp *Replay) string {
	os.MkdirAll(dir, 0755)
	name := fmt.Sprintf("%s/%s-%d-%d.json", dir, rp.Property, rp.MasterSeed, rp.RunIndex)
	b, _ := json.MarshalIndent(rp, "", " ")
	if err := os.WriteFile(name, b, 0644); err != nil {
		fatal2("write replay: %v", err)
	}
	if rp.full != nil {
		// the unminimised trace, used if the minimised one does not replay in a fresh process
		fb, _ := json.MarshalIndent(rp.full, "", " ")
		os.WriteFile(name+".full", fb, 0644)
	}
	return name
}

// ---------------------------------------------------------------- main

type funcInfo struct {
	Name     string     `json:"name"`
	Args     [][]string `json:"args"`
	Variadic bool       `json:"variadic"`
}

var knownBuiltins = map[string]bool{"length": true, "starts_with": true, "abs": true, "avg": true, "ceil": true, "contains": true, "ends_with": true, "floor": true, "map": true, "max": true, "merge": true,
	"max_by": true, "sum": true, "min": true, "min_by": true, "type": true, "keys": true, "values": true, "sort": true, "sort_by": true, "join": true, "reverse": true, "to_array": true, "to_string": true,
	"to_number": true, "not_null": true}

// extraFunctionExprs: call expressions for built-ins the library's function table has and
// this harness has never heard of (a changed tree may add functions): every argument
// position is fed from the document according to the declared argument types.
func extraFunctionExprs(fns []funcInfo) []string {
	src := map[string][]string{
		"jpArray":       {"nums", "strs", "objs", "nested", "`[3,1,3,2,1]`", "objs[*].s", "mixed"},
		"jpArrayNumber": {"nums", "`[3,1,3,2]`", "objs[*].k"},
		"jpArrayString": {"strs", "objs[*].s", "`[\"dev\",\"dev\",\"ops\"]`"},
		"jpObject":      {"o1", "o3", "o2", "objs[0]"},
		"jpString":      {"s", "'a'", "strs[0]"},
		"jpNumber":      {"n", "`2`", "nums[0]"},
		"jpExpref":      {"&k", "&@", "&s"},
		"jpAny":         {"nums", "objs", "o1", "s", "strs"},
	}
	var out []string
	for _, f := range fns {
		if knownBuiltins[f.Name] {
			continue
		}
		combos := [][]string{{}}
		args := f.Args
		if len(args) == 0 {
			args = [][]string{{"jpAny"}}
		}
		if f.Variadic && len(args) == 1 {
			args = append(args, args[0])
		}
		for _, types := range args {
			var cands []string
			for _, t := range types {
				cands = append(cands, src[t]...)
			}
			if len(cands) == 0 {
				cands = src["jpAny"]
			}
			var next [][]string
			for _, c := range combos {
				for _, a := range cands {
					if len(next) < 80 {
						next = append(next, append(append([]string{}, c...), a))
					}
				}
			}
			combos = next
		}
		for _, c := range combos {
			call := f.Name + "(" + strings.Join(c, ", ") + ")"
			out = append(out, call, "("+call+") | [0]", "["+c[0]+", "+call+"]", "objs[*]."+f.Name+"("+strings.Join(append([]string{"t"}, c[1:]...), ", ")+")")
		}
	}
	return out
}

// knownLexChars: the characters the pinned lexer mentions. A changed tree that teaches the
// lexer a new character has probably gained new syntax: expressions using it are added.
const knownLexChars = ".*,:{}]()@-09[\"'`|<>!=&?\\ \t\n\r"

func extraSyntaxExprs(chars []string) []string {
	var out []string
	for _, c := range chars {
		if len(c) != 1 || strings.Contains(knownLexChars, c) || c[0] >= 'a' && c[0] <= 'z' || c[0] >= 'A' && c[0] <= 'Z' || c[0] >= '0' && c[0] <= '9' || c == "_" {
			continue
		}
		for _, t := range []string{"X", "X.nums", "X.objs[0].k", "nums | X", "objs[*].{k: k, r: X.n}", "objs[*].[k, X.s]", "[X, nums]", "X[0]", "Xnums", "nums X strs", "nums X `1`", "X(nums)", "objs[?k > X.n]",
			"sort_by(objs, &X.n)", "X.o1.b.c", "length(X)", "nums[X]", "o1.X", "X | [0]", "type(X)", "objs[?X].k", "X == @", "o1.b.c[0] X", "X X"} {
			out = append(out, strings.Replace(t, "X", c, -1))
		}
	}
	return out
}

func loadSites(path string) {
	b, err := os.ReadFile(path)
	if err != nil {
		fatal2("site table: %v", err)
	}
	var rp struct {
		Sites     []SiteInfo `json:"sites"`
		Functions []funcInfo `json:"functions"`
		LexChars  []string   `json:"lex_chars"`
		SyncSites []string   `json:"sync_sites"`
	}
	if err := json.Unmarshal(b, &rp); err != nil {
		fatal2("site table: %v", err)
	}
	extraExprs = append(extraFunctionExprs(rp.Functions), extraSyntaxExprs(rp.LexChars)...)
	for _, ss := range rp.SyncSites {
		if strings.HasSuffix(ss, " go") {
			libHasGo = true
		}
	}
	siteTable = rp.Sites
	siteWrite = make([]bool, len(siteTable))
	for i, s := range siteTable {
		siteWrite[i] = s.Write
	}
	simrt.InitCoverage(len(siteTable))
}

func main() {
	if len(os.Args) < 2 {
		fatal2("usage: simharness worker|replay ...")
	}
	cmd := os.Args[1]
	fs := flag.NewFlagSet(cmd, flag.ExitOnError)
	prop := fs.String("prop", "", "property id")
	tier := fs.String("tier", "quick", "quick|thorough")
	seed := fs.Uint64("seed", 1, "master seed (VERIF_SEED)")
	from := fs.Int("from", 0, "first run index")
	to := fs.Int("to", 0, "one past the last run index")
	out := fs.String("out", "", "stats output file")
	sites := fs.String("sites", "", "instr report.json")
	corp := fs.String("corpus", "", "corpus/compliance.json")
	known := fs.String("known", "", "known_findings.json")
	replayDir := fs.String("replay-dir", "", "where replay files are written")
	maxWall := fs.Duration("max-wall", 0, "stop generating new runs after this long")
	perRun := fs.Bool("per-run-digest", false, "record one digest per run (selftest)")
	stage := fs.String("stage", "", "sub-stage of the engine (engine specific)")
	jpgoBin := fs.String("jpgo-bin", "", "real jpgo binary for the stub cross-check (C19)")
	progressFile := fs.String("progress", "", "memory-mapped (run index, phase) file read by the driver after a fatal crash")
	fs.Parse(os.Args[2:])
	if *sites != "" {
		loadSites(*sites)
	}
	if *corp != "" {
		loadCorpus(*corp)
	}
	loadKnown(*known)
	zzverifrt.Hook = simrt.Yield
	zzverifrt.Blocked = simrt.BlockedYield
	zzverifrt.Active = simrt.Active
	zzverifrt.GoHook = simrt.Spawn
	simrt.RealSpawned = zzverifrt.RealSpawned
	zzverifrt.Clock = simrt.ClockNow
	zzverifrt.ClockAdvance = simrt.ClockJump
	simrt.TimerHook = zzverifrt.FireTimers
	simrt.RealTimersHook = func() bool { return zzverifrt.RealTimers }
	progressOpen(*progressFile)

	if pf := os.Getenv("VERIF_PROF"); pf != "" {
		f, _ := os.Create(pf)
		pprof.StartCPUProfile(f)
		defer pprof.StopCPUProfile()
	}
	switch cmd {
	case "worker":
		var st *Stats
		switch *prop {
		case "C06", "C12":
			st = schedWorker(*prop, *tier, *seed, *from, *to, *maxWall, *replayDir, *perRun, *stage)
		case "C13":
			st = histWorker(*tier, *seed, *from, *to, *maxWall, *replayDir, *stage, *perRun)
		case "C19":
			st = ioWorker(*tier, *seed, *from, *to, *maxWall, *replayDir, *stage, *jpgoBin, *perRun)
		default:
			fatal2("unknown property %q", *prop)
		}
		b, _ := json.Marshal(st)
		if *out != "" {
			if err := os.WriteFile(*out, b, 0644); err != nil {
				fatal2("%v", err)
			}
		} else {
			fmt.Println(string(b))
		}
		pprof.StopCPUProfile()
		os.Exit(0)
	case "replay":
		if fs.NArg() != 1 {
			fatal2("usage: simharness replay [flags] <file>")
		}
		os.Exit(doReplay(fs.Arg(0)))
	}
	fatal2("unknown command %q", cmd)
}

func doReplay(path string) int {
	b, err := os.ReadFile(path)
	if err != nil {
		fatal2("%v", err)
	}
	var rp Replay
	if err := json.Unmarshal(b, &rp); err != nil {
		fatal2("replay file: %v", err)
	}
	attempts := 1
	if rp.Class == "race" || rp.Class == "doc-race" {
		attempts = 10 // sync.Pool inside fmt/encoding/json drops items at random under -race, which can add or remove a happens-before edge
	}
	for a := 0; a < attempts; a++ {
		var vs []Violation
		switch rp.Engine {
		case "simsched":
			rep := runSched(rp.Workload)
			vs = rep.Violations
		case "simhist":
			vs = runHistory(rp.History).Violations
		case "simio":
			vs = runIOCase(rp.IOCase).Violations
		default:
			fatal2("unknown engine %q", rp.Engine)
		}
		if v := sameViolation(vs, rp.Class, rp.Signature); v != nil {
			fmt.Printf("REPRODUCED property=%s class=%s signature=%q\n  %s\n", v.Prop, v.Class, v.Sig, v.Detail)
			return 1
		}
		if a == attempts-1 && len(vs) > 0 {
			var other []string
			for _, v := range vs {
				other = append(other, v.Class+":"+v.Sig)
			}
			sort.Strings(other)
			fmt.Printf("NOT-REPRODUCED (other violations seen: %s)\n", strings.Join(other, ", "))
			return 0
		}
	}
	fmt.Println("NOT-REPRODUCED")
	return 0
}
