package main

import (
	"os"
	"syscall"
	"unsafe"
)

// The worker keeps (run index, phase) in a memory-mapped file. If the code under test
// kills the whole process with an unrecoverable Go fatal error (stack overflow from a
// self-referential value it built, "all goroutines are asleep" on a leaked lock), the
// driver reads the file to learn which seeded run was executing and in which phase:
//
//	1 = stateless references (fresh objects, fresh package state)
//	2 = the run proper (long-lived / shared objects)
//	3 = post-processing (minimisation, replay writing)
//
// A crash in phase 2 after phase 1 completed means: every operation of the run was
// fine on fresh objects and the same operations crash the process on reused/shared
// ones — reported by the driver as class "fatal-crash" after it has reproduced the
// crash twice in fresh processes.
var progress *[2]uint64

func progressOpen(path string) {
	if path == "" {
		return
	}
	f, err := os.OpenFile(path, os.O_RDWR|os.O_CREATE|os.O_TRUNC, 0644)
	if err != nil {
		return
	}
	defer f.Close()
	if f.Truncate(16) != nil {
		return
	}
	b, err := syscall.Mmap(int(f.Fd()), 0, 16, syscall.PROT_READ|syscall.PROT_WRITE, syscall.MAP_SHARED)
	if err != nil {
		return
	}
	progress = (*[2]uint64)(unsafe.Pointer(&b[0]))
	progress[0] = ^uint64(0)
}

//go:norace
func progressRun(idx int) {
	if progress != nil {
		progress[0] = uint64(idx)
		progress[1] = 0
	}
}

//go:norace
func progressPhase(p uint64) {
	if progress != nil {
		progress[1] = p
	}
}
