package main

import (
	"fmt"
	"reflect"
	"sort"
	"strings"

	jmespath "github.com/jmespath/go-jmespath"
	"github.com/jmespath/go-jmespath/zzverifrt"

	"verifharness/simrt"
)

// ---------------------------------------------------------------- workload

type Op struct {
	Kind string `json:"kind"` // search | oneshot | compile_search | parse
	Expr int    `json:"expr"`
	Doc  int    `json:"doc"`
	Jump int64  `json:"clock_jump_ns,omitempty"` // clock fault: the simulated clock jumps forward before this operation
}

type SchedSpec struct {
	Seed     uint64 `json:"seed"`
	Policy   int    `json:"policy"`
	P        uint32 `json:"p,omitempty"`
	PHigh    uint32 `json:"p_high,omitempty"`
	PLow     uint32 `json:"p_low,omitempty"`
	Quantum  uint64 `json:"quantum,omitempty"`
	PCTDepth int    `json:"pct_depth,omitempty"`
	EstSteps uint64 `json:"est_steps,omitempty"`
	First    int    `json:"first"`
}

type Workload struct {
	Prop      string        `json:"property"`
	Mode      string        `json:"mode"`
	Exprs     []string      `json:"expressions"`
	Docs      []DocSpec     `json:"documents"`
	Clients   [][]Op        `json:"clients"`
	Observer  bool          `json:"observer"`
	MapSalt   uint64        `json:"map_salt"`
	MapPolicy int           `json:"map_policy"`
	HashEvery bool          `json:"hash_every_step"`
	ExactHash bool          `json:"exact_hash,omitempty"` // never stride the per-step hash (set when pinning a violation)
	Sched     SchedSpec     `json:"sched"`
	Forced    []simrt.Event `json:"schedule,omitempty"` // when present the run follows it exactly
	UseForced bool          `json:"use_schedule,omitempty"`
}

type Outcome struct {
	Kind    string      `json:"kind"` // value | error | panic | stepcap
	Val     interface{} `json:"-"`
	Text    string      `json:"text,omitempty"`
	ErrType string      `json:"err_type,omitempty"`
	ErrMsg  string      `json:"err_msg,omitempty"`
	Invoke  uint64      `json:"invoke"`
	Return  uint64      `json:"return"`
	Steps   uint64      `json:"steps"`
	raw     interface{} // the value exactly as returned (may alias documents, literals, library memory)
	late    string      // set when the value read later differs from what was returned
}

type Violation struct {
	Prop   string `json:"property"`
	Class  string `json:"class"`
	Sig    string `json:"signature"`
	Detail string `json:"detail"`
}

type RunReport struct {
	Violations  []Violation
	Out         *simrt.Outcome
	Outcomes    [][]Outcome
	Refs        [][]Outcome
	Races       []RaceReport
	RaceDelta   int
	ObsTurns    int
	ObsInFlight int // observer turns taken while a Search was in flight
	ErrOps      int
	ValOps      int
	PanicOps    int
	HashChecks  uint64
}

const opStepCap = 500000

// ---------------------------------------------------------------- map order seam

func mapOrderFn(salt uint64, pol int) func([]string) {
	switch pol {
	case 1:
		return nil // sorted
	case 2:
		return func(keys []string) {
			for i, j := 0, len(keys)-1; i < j; i, j = i+1, j-1 {
				keys[i], keys[j] = keys[j], keys[i]
			}
		}
	}
	return func(keys []string) {
		sort.Slice(keys, func(i, j int) bool {
			hi, hj := simrt.Mix(salt, hashStr(keys[i])), simrt.Mix(salt, hashStr(keys[j]))
			if hi != hj {
				return hi < hj
			}
			return keys[i] < keys[j]
		})
	}
}

// ---------------------------------------------------------------- executing one operation

type env struct {
	exprs    []string
	compiled []*jmespath.JMESPath
	docs     []interface{}
}

// safeCompile is Compile with panics turned into an outcome: the harness must survive
// whatever the code under test does.
func safeCompile(src string) (jp *jmespath.JMESPath, out Outcome) {
	simrt.OpBegin()
	defer func() {
		if r := recover(); r != nil {
			jp = nil
			if _, ok := r.(simrt.StepCapExceeded); ok {
				out = Outcome{Kind: "stepcap"}
			} else {
				out = Outcome{Kind: "panic", ErrMsg: fmt.Sprint(r)}
			}
		}
	}()
	j, err := jmespath.Compile(src)
	if err != nil {
		o := Outcome{Kind: "error", ErrType: errType(err), ErrMsg: err.Error()}
		if se, ok := err.(jmespath.SyntaxError); ok {
			o.Val = se
		}
		return nil, o
	}
	return j, Outcome{Kind: "value"}
}

func errType(err error) string {
	if err == nil {
		return ""
	}
	return reflect.TypeOf(err).String()
}

func execOp(op Op, e *env) (out Outcome) {
	simrt.OpBegin()
	out.Invoke = simrt.Stamp()
	l0 := stepsNow()
	defer func() {
		if r := recover(); r != nil {
			if _, ok := r.(simrt.StepCapExceeded); ok {
				out = Outcome{Kind: "stepcap", Invoke: out.Invoke}
			} else if _, ok := r.(simrt.CapacityExceeded); ok {
				out = Outcome{Kind: "aborted", Invoke: out.Invoke}
			} else {
				out = Outcome{Kind: "panic", ErrMsg: fmt.Sprint(r), Invoke: out.Invoke}
			}
		}
		out.Return = simrt.Stamp()
		out.Steps = stepsNow() - l0
	}()
	var v interface{}
	var err error
	switch op.Kind {
	case "search":
		v, err = e.compiled[op.Expr].Search(e.docs[op.Doc])
	case "oneshot":
		v, err = jmespath.Search(e.exprs[op.Expr], e.docs[op.Doc])
	case "compile_search":
		var jp *jmespath.JMESPath
		jp, err = jmespath.Compile(e.exprs[op.Expr])
		if err == nil {
			v, err = jp.Search(e.docs[op.Doc])
		}
	case "mustcompile_search":
		jp := jmespath.MustCompile(e.exprs[op.Expr]) // panics on a syntax error: outcome "panic"
		v, err = jp.Search(e.docs[op.Doc])
	case "parse":
		var ast jmespath.ASTNode
		ast, err = jmespath.NewParser().Parse(e.exprs[op.Expr])
		v = ast
	default:
		panic("bad op kind " + op.Kind)
	}
	if err != nil {
		out.Kind = "error"
		out.ErrType = errType(err)
		out.ErrMsg = err.Error()
		if se, ok := err.(jmespath.SyntaxError); ok {
			out.Val = se
		}
		return
	}
	out.Kind = "value"
	out.Val = deepCopy(v) // the caller reads its result at once
	out.raw = v
	return
}

// recheck re-reads, later, the values this client was given earlier: a value handed to
// one caller must not be overwritten by somebody else's (or this caller's next) call.
func recheck(outs []Outcome, upto int, when string) {
	for i := 0; i < upto; i++ {
		o := &outs[i]
		if o.Kind == "value" && o.late == "" && !equalVal(deepCopy(o.raw), o.Val) {
			o.late = "value was " + render(o.Val) + " when returned and reads " + render(o.raw) + " " + when
		}
	}
}

// stepsAtOpBegin: the step counter right after simrt.OpBegin (0 outside a run, where
// OpBegin restarts the count).
func stepsAtOpBegin() uint64 {
	if simrt.Active() {
		return simrt.LocalStep()
	}
	return 0
}

func stepsNow() uint64 {
	if simrt.Active() {
		return simrt.LocalStep()
	}
	return simrt.RefSteps()
}

func sameOutcome(a, b *Outcome) bool {
	if a.Kind != b.Kind {
		return false
	}
	switch a.Kind {
	case "value":
		return equalVal(a.Val, b.Val)
	case "error":
		if a.ErrType != b.ErrType {
			return false
		}
		if a.Val != nil || b.Val != nil { // SyntaxError: compare its fields
			return reflect.DeepEqual(a.Val, b.Val)
		}
		return true
	}
	return true
}

func (o *Outcome) String() string {
	switch o.Kind {
	case "value":
		return "value " + render(o.Val)
	case "error":
		return "error(" + o.ErrType + ") " + o.ErrMsg
	case "panic":
		return "panic " + o.ErrMsg
	}
	return o.Kind
}

// ---------------------------------------------------------------- document watch (C06)

type watch struct {
	on        bool
	every     bool
	stride    uint64 // per-step hashing of a large document is done every stride-th step
	swStride  uint64 // at-switch hashing of a very large document: every swStride-th switch
	tick      uint64
	docs      []interface{}
	base      []uint64
	hit       bool
	hitDoc    int
	hitClient int
	hitSite   int32 // statement executed last by the client that made the hash change
	hitStep   uint64
	checks    uint64
}

var wt watch

//go:norace
func watchCheck(c int, site int32) {
	wt.checks++
	for i := 0; i < len(wt.docs); i++ {
		if hashDoc(wt.docs[i]) != wt.base[i] {
			wt.hit = true
			wt.hitDoc = i
			wt.hitClient = c
			wt.hitSite = simrt.LastSite(c)
			wt.hitStep = simrt.GlobalStep()
			wt.on = false
			return
		}
	}
}

//go:norace
func onStep(c int, site int32) {
	if wt.on && wt.every {
		wt.tick++
		if wt.stride <= 1 || wt.tick%wt.stride == 0 {
			watchCheck(c, site)
		}
	}
}

// countNodes: size of a JSON-shaped document (typed documents count as small).
func countNodes(v interface{}, d int) int {
	if d > 64 {
		return 1
	}
	n := 1
	switch x := v.(type) {
	case []interface{}:
		for _, e := range x {
			n += countNodes(e, d+1)
		}
	case map[string]interface{}:
		for _, e := range x {
			n += countNodes(e, d+1)
		}
	}
	return n
}

//go:norace
func onSwitch(from, to int, site int32) {
	if wt.on && !wt.every {
		wt.tick++
		if wt.swStride <= 1 || wt.tick%wt.swStride == 0 {
			// the parked client's last executed statement is the current site's predecessor
			watchCheck(from, site)
		}
	}
}

// observeEqual is the observer's read-only walk: ordinary (race-visible) loads of
// every element up to capacity, compared with the pristine twin.
func observeEqual(a, b interface{}) bool { return observeEqualD(a, b, 0) }

func observeEqualD(a, b interface{}, d int) bool {
	if d > maxDepth {
		return false
	}
	switch x := a.(type) {
	case []interface{}:
		y, ok := b.([]interface{})
		if !ok || len(x) != len(y) || cap(x) != cap(y) {
			return false
		}
		fx, fy := x[:cap(x)], y[:cap(y)]
		for i := range fx {
			if !observeEqualD(fx[i], fy[i], d+1) {
				return false
			}
		}
		return true
	case map[string]interface{}:
		y, ok := b.(map[string]interface{})
		if !ok || len(x) != len(y) {
			return false
		}
		for k, e := range x {
			f, ok := y[k]
			if !ok || !observeEqualD(e, f, d+1) {
				return false
			}
		}
		return true
	case float64, string, bool, nil:
		return equalVal(a, b)
	}
	return reflect.DeepEqual(a, b)
}

// ---------------------------------------------------------------- one simulated run

var siteTable []SiteInfo
var siteWrite []bool

type SiteInfo struct {
	ID    int    `json:"id"`
	File  string `json:"file"`
	Line  int    `json:"line"`
	Func  string `json:"func"`
	Write bool   `json:"write"`
}

func siteName(id int32) string {
	if id >= 0 && int(id) < len(siteTable) {
		s := siteTable[id]
		return fmt.Sprintf("%s:%d", s.File, s.Line)
	}
	switch id {
	case -1:
		return "harness:observer"
	case -2:
		return "harness:between-ops"
	case -3:
		return "harness:client-start"
	case -4:
		return "lock-held-by-parked-client"
	}
	return fmt.Sprintf("site%d", id)
}

func siteFunc(id int32) string {
	if id >= 0 && int(id) < len(siteTable) {
		return siteTable[id].Func
	}
	return "harness"
}

func installHooks(w *Workload) {
	zzverifrt.Hook = simrt.Yield
	zzverifrt.Blocked = simrt.BlockedYield
	zzverifrt.Active = simrt.Active
	zzverifrt.GoHook = simrt.Spawn
	simrt.RealSpawned = zzverifrt.RealSpawned
	zzverifrt.Clock = simrt.ClockNow
	zzverifrt.ClockAdvance = simrt.ClockJump
	simrt.TimerHook = zzverifrt.FireTimers
	simrt.RealTimersHook = func() bool { return zzverifrt.RealTimers }
	zzverifrt.RandSeed(int64(w.Sched.Seed))
	simrt.ClockReset()
	zzverifrt.MapOrder = mapOrderFn(w.MapSalt, w.MapPolicy)
	simrt.SetNoPreempt(&zzverifrt.NoPreempt)
}

func schedConfig(w *Workload) *simrt.Config {
	cfg := &simrt.Config{
		Seed: w.Sched.Seed, Policy: simrt.Policy(w.Sched.Policy), P: w.Sched.P, PHigh: w.Sched.PHigh, PLow: w.Sched.PLow,
		Quantum: w.Sched.Quantum, PCTDepth: w.Sched.PCTDepth, EstSteps: w.Sched.EstSteps, StepCap: opStepCap, First: w.Sched.First,
		SiteWrite: siteWrite, OnStep: onStep, OnSwitch: onSwitch,
	}
	if w.UseForced {
		cfg.Policy = simrt.PolForced
		cfg.Forced = w.Forced
	}
	return cfg
}

// libHasGo: the instrumented library contains go statements. A call made "alone"
// (reference evaluations, the single-client histories of C13) then still involves several
// goroutines; it is executed as a simulated run of its own (no preemption: the goroutines
// the library starts run when the caller waits for them), so that its outcome and its step
// count are a function of the input and not of the Go scheduler.
var libHasGo bool

// soloDo runs f alone: directly, or as a one-client simulated run when the library starts
// goroutines. It reports whether f ran to completion (false: the library deadlocked or
// needed more goroutines than the simulator has slots) and the steps of the whole run.
func soloDo(f func()) (completed bool, steps uint64) {
	if !libHasGo || simrt.Active() {
		f()
		return true, 0
	}
	done := false
	o := simrt.Run(&simrt.Config{Seed: 1, Policy: simrt.PolNone, StepCap: opStepCap}, []func(){func() {
		f()
		done = true
	}})
	return done && !o.Aborted, o.Steps
}

// reference evaluates op alone: freshly initialised package, fresh compile, private
// document, same map order.
func reference(w *Workload, op Op) Outcome {
	zzverifrt.ResetAll()
	e := &env{exprs: w.Exprs, compiled: make([]*jmespath.JMESPath, len(w.Exprs)), docs: make([]interface{}, len(w.Docs))}
	e.docs[op.Doc] = w.Docs[op.Doc].Build()
	if op.Kind == "search" {
		jp, o := safeCompile(w.Exprs[op.Expr])
		if jp == nil {
			return o
		}
		e.compiled[op.Expr] = jp
	}
	simrt.RefMode(opStepCap)
	var out Outcome
	ok, steps := soloDo(func() { out = execOp(op, e) })
	simrt.RefMode(0)
	if !ok {
		return Outcome{Kind: "stepcap", Steps: opStepCap} // no answer even alone: says nothing about concurrency
	}
	if steps > out.Steps {
		out.Steps = steps
	}
	if out.Kind == "stepcap" {
		out.Steps = opStepCap // (the estimate that thins preemptions out on long runs)
	}
	return out
}

func runSched(w *Workload) *RunReport {
	rep := &RunReport{}
	installHooks(w)
	prop := w.Prop

	// 1. references ("the same call made alone")
	progressPhase(1)
	refCache := map[Op]Outcome{}
	rep.Refs = make([][]Outcome, len(w.Clients))
	for ci, ops := range w.Clients {
		rep.Refs[ci] = make([]Outcome, len(ops))
		for oi, op := range ops {
			key := op
			key.Jump = 0
			r, ok := refCache[key]
			if !ok {
				r = reference(w, key)
				refCache[key] = r
			}
			rep.Refs[ci][oi] = r
		}
	}

	var est uint64
	for ci := range rep.Refs {
		for oi := range rep.Refs[ci] {
			est += rep.Refs[ci][oi].Steps
		}
	}
	if w.Sched.EstSteps == 0 {
		w.Sched.EstSteps = est + 10
	}
	// a context switch costs ~10-30 µs: on long runs thin the preemptions out so that a run
	// makes at most ~20 000 of them (deterministic: derived from the reference step counts)
	if est > 100000 && !w.UseForced {
		scale := est / 20000
		if q := uint64(w.Sched.Quantum); simrt.Policy(w.Sched.Policy) == simrt.PolRoundRobin && q < scale {
			w.Sched.Quantum = scale
		}
		if p := uint64(w.Sched.P); p*est/65536 > 20000 {
			w.Sched.P = uint32(20000 * 65536 / est)
		}
		if p := uint64(w.Sched.PHigh); p*est/65536 > 40000 {
			w.Sched.PHigh = uint32(40000 * 65536 / est)
		}
		if p := uint64(w.Sched.PLow); p*est/65536 > 20000 {
			w.Sched.PLow = uint32(20000 * 65536 / est)
		}
	}

	// 2. pristine world for the concurrent phase
	progressPhase(2)
	zzverifrt.ResetAll()
	e := &env{exprs: w.Exprs, compiled: make([]*jmespath.JMESPath, len(w.Exprs)), docs: make([]interface{}, len(w.Docs))}
	pristine := make([]interface{}, len(w.Docs))
	for i, d := range w.Docs {
		e.docs[i] = d.Build()
		pristine[i] = d.Build()
	}
	for _, ops := range w.Clients {
		for _, op := range ops {
			if op.Kind == "search" && e.compiled[op.Expr] == nil {
				jp, _ := safeCompile(w.Exprs[op.Expr])
				if jp == nil {
					fatal2("workload uses search on an expression that does not compile: %q", w.Exprs[op.Expr])
				}
				e.compiled[op.Expr] = jp
			}
		}
	}
	wt = watch{}
	if prop == "C06" {
		wt.docs = e.docs
		wt.base = make([]uint64, len(e.docs))
		for i, d := range e.docs {
			wt.base[i] = hashDoc(d)
		}
		wt.every = w.HashEvery
		// hashing is O(document): on a large document hash every k-th step only (a violation
		// found that way is pinned by re-executing the recorded schedule with k = 1)
		nodes := 0
		for _, d := range e.docs {
			nodes += countNodes(d, 0)
		}
		if nodes > 200 && !w.ExactHash {
			wt.stride = uint64(nodes / 100)
		}
		if nodes > 4000 && !w.ExactHash {
			wt.swStride = uint64(nodes / 2000) // (the end-of-run comparison and the observer see every lasting write anyway)
		}
		wt.on = true
	}

	// 3. clients
	nSearch := len(w.Clients)
	rep.Outcomes = make([][]Outcome, nSearch)
	inFlight := make([]bool, nSearch) // written by its client only, read by the observer: harness-owned, tolerated in race filtering
	_ = inFlight
	var bodies []func()
	for ci := range w.Clients {
		ci := ci
		ops := w.Clients[ci]
		rep.Outcomes[ci] = make([]Outcome, len(ops))
		bodies = append(bodies, func() {
			simrt.Yield(-3)
			for oi, op := range ops {
				simrt.ClockJump(op.Jump)
				rep.Outcomes[ci][oi] = execOp(op, e)
				simrt.Yield(-2)
				recheck(rep.Outcomes[ci], oi+1, "after other clients ran")
			}
		})
	}
	obsFail := ""
	obsTurns, obsInFlight := 0, 0
	if w.Observer {
		bodies = append(bodies, func() {
			for {
				obsTurns++
				if simrt.NAlive() > 1 {
					obsInFlight++
				}
				for i := range e.docs {
					if obsFail == "" && !observeEqual(e.docs[i], pristine[i]) {
						obsFail = fmt.Sprintf("doc %d differs from its snapshot at %s (observer turn %d, global step %d)", i, firstDiff(e.docs[i], pristine[i], "$"), obsTurns, simrt.GlobalStep())
					}
				}
				if simrt.NAlive() <= 1 || obsTurns >= w.obsLimit() {
					return // the final comparison is made after the run in any case
				}
				simrt.Pass(-1)
			}
		})
	}

	cfg := schedConfig(w)
	races0 := simrt.RaceErrors()
	raceMark()
	rep.Out = simrt.Run(cfg, bodies)
	rep.RaceDelta = simrt.RaceErrors() - races0
	rep.ObsTurns, rep.ObsInFlight = obsTurns, obsInFlight
	rep.HashChecks = wt.checks
	wt.on = false
	if rep.RaceDelta > 0 {
		rep.Races = raceCollect()
	}
	for i, p := range rep.Out.BodyPanics {
		if p != "" {
			fatal2("harness bug: client %d body panicked: %s", i, p)
		}
	}

	// 4. oracles
	progressPhase(3)
	if rep.Out.Aborted {
		// the library started more goroutines than the simulator holds: nothing is concluded
		return rep
	}
	for ci := range rep.Outcomes {
		recheck(rep.Outcomes[ci], len(rep.Outcomes[ci]), "after all clients finished")
	}
	for ci := range rep.Outcomes {
		for oi := range rep.Outcomes[ci] {
			switch rep.Outcomes[ci][oi].Kind {
			case "value":
				rep.ValOps++
			case "error":
				rep.ErrOps++
			case "panic":
				rep.PanicOps++
			}
		}
	}
	switch prop {
	case "C06":
		if wt.hit {
			v := Violation{Prop: "C06", Class: "doc-write"}
			if w.HashEvery && wt.stride <= 1 {
				v.Sig = siteName(wt.hitSite)
				v.Detail = fmt.Sprintf("document %d was written by client %d in statement %s (%s) at global step %d: capacity-covering hash changed", wt.hitDoc, wt.hitClient, siteName(wt.hitSite), siteFunc(wt.hitSite), wt.hitStep)
			} else {
				v.Sig = "?"
				v.Detail = fmt.Sprintf("document %d hash changed while client %d ran (detected at a context switch, global step %d)", wt.hitDoc, wt.hitClient, wt.hitStep)
			}
			rep.Violations = append(rep.Violations, v)
		}
		if obsFail != "" {
			rep.Violations = append(rep.Violations, Violation{Prop: "C06", Class: "doc-changed", Sig: "observer", Detail: obsFail})
		}
		for i := range e.docs {
			if !observeEqual(e.docs[i], pristine[i]) {
				rep.Violations = append(rep.Violations, Violation{Prop: "C06", Class: "doc-changed", Sig: "after",
					Detail: fmt.Sprintf("after all calls returned, doc %d differs from its snapshot at %s", i, firstDiff(e.docs[i], pristine[i], "$"))})
				break
			}
			if !wt.hit && hashDoc(e.docs[i]) != wt.base[i] {
				rep.Violations = append(rep.Violations, Violation{Prop: "C06", Class: "doc-write", Sig: "?",
					Detail: fmt.Sprintf("after all calls returned, doc %d hash (covering capacity and container identity) differs", i)})
				break
			}
		}
		for _, r := range rep.Races {
			if r.involves("main.observeEqual") || r.involves("main.hashDoc") || r.involves("main.hashReflect") {
				rep.Violations = append(rep.Violations, Violation{Prop: "C06", Class: "doc-race", Sig: r.Signature(),
					Detail: "race detector: a write to the shared document conflicts with a read-only observer: " + r.Summary()})
			}
		}
	case "C12":
		for _, r := range rep.Races {
			if r.harnessOnly() {
				fatal2("harness bug: race entirely inside harness code:\n%s", r.Raw)
			}
			rep.Violations = append(rep.Violations, Violation{Prop: "C12", Class: "race", Sig: r.Signature(), Detail: "race detector: " + r.Summary()})
		}
		if rep.RaceDelta > 0 && len(rep.Races) == 0 {
			rep.Violations = append(rep.Violations, Violation{Prop: "C12", Class: "race", Sig: "unparsed", Detail: fmt.Sprintf("%d race reports (log not parsed)", rep.RaceDelta)})
		}
		for ci := range rep.Outcomes {
			for oi := range rep.Outcomes[ci] {
				got, ref := &rep.Outcomes[ci][oi], &rep.Refs[ci][oi]
				if got.late != "" && prop == "C12" {
					op := w.Clients[ci][oi]
					rep.Violations = append(rep.Violations, Violation{Prop: "C12", Class: "result-overwritten", Sig: op.Kind,
						Detail: fmt.Sprintf("client %d op %d %s(%q): %s", ci, oi, op.Kind, w.Exprs[op.Expr], got.late)})
				}
				if sameOutcome(got, ref) {
					continue
				}
				if ref.Kind == "stepcap" {
					// the reference ran out of its step budget (with goroutines started by the
					// library every goroutine's steps count against it): nothing to compare with
					continue
				}
				op := w.Clients[ci][oi]
				class := "mismatch"
				if got.Kind == "stepcap" {
					class = "no-return"
				} else {
					class = attribute(w, rep)
				}
				rep.Violations = append(rep.Violations, Violation{Prop: "C12", Class: class, Sig: op.Kind,
					Detail: fmt.Sprintf("client %d op %d %s(%q): concurrent call returned %s; the same call alone returns %s", ci, oi, op.Kind, w.Exprs[op.Expr], got.String(), ref.String())})
			}
		}
	}
	return rep
}

// obsLimit bounds the observer's turns per run: each turn costs two context switches
// and a full walk of the document. The race oracle does not depend on when the
// observer reads (it is happens-before based), and transient writes are the per-step
// hash's job, so a handful of seeded turns per run is enough.
func (w *Workload) obsLimit() int {
	return 2 + int(simrt.Mix(w.Sched.Seed, 77)%10)
}

func (w *Workload) describe() string {
	var b strings.Builder
	fmt.Fprintf(&b, "%s/%s clients=%d", w.Prop, w.Mode, len(w.Clients))
	for ci, ops := range w.Clients {
		fmt.Fprintf(&b, " c%d[", ci)
		for i, op := range ops {
			if i > 0 {
				b.WriteString("; ")
			}
			fmt.Fprintf(&b, "%s %q doc%d", op.Kind, w.Exprs[op.Expr], op.Doc)
		}
		b.WriteString("]")
	}
	return b.String()
}
