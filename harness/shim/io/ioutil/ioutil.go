// Package ioutil: ReadFile goes to the simulated file system; ReadAll is the real one
// (it reads from whatever reader it is given, normally the simulated stdin).
package ioutil

import (
	"io"

	shimos "verifharness/shim/os"
)

var Discard = io.Discard

func ReadAll(r io.Reader) ([]byte, error)  { return io.ReadAll(r) }
func ReadFile(name string) ([]byte, error) { return shimos.ReadFile(name) }
func NopCloser(r io.Reader) io.ReadCloser  { return io.NopCloser(r) }
