// Package log: output goes to the simulated stderr, Fatal* exit through the simulated exit.
package log

import (
	"fmt"
	"io"

	shimos "verifharness/shim/os"
)

var out io.Writer

func w() io.Writer {
	if out != nil {
		return out
	}
	return shimos.Stderr
}

func SetOutput(o io.Writer)  { out = o }
func SetFlags(int)           {}
func SetPrefix(string)       {}
func Print(a ...interface{}) { fmt.Fprint(w(), a...); fmt.Fprintln(w()) }
func Printf(format string, a ...interface{}) {
	fmt.Fprintf(w(), format, a...)
	fmt.Fprintln(w())
}
func Println(a ...interface{}) { fmt.Fprintln(w(), a...) }
func Fatal(a ...interface{})   { Print(a...); shimos.Exit(1) }
func Fatalf(format string, a ...interface{}) {
	Printf(format, a...)
	shimos.Exit(1)
}
func Fatalln(a ...interface{}) { Println(a...); shimos.Exit(1) }
func Panic(a ...interface{})   { s := fmt.Sprint(a...); Print(s); panic(s) }
func Panicf(format string, a ...interface{}) {
	s := fmt.Sprintf(format, a...)
	Print(s)
	panic(s)
}
