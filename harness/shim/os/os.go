// Package os is the shim jpgo's main.go is compiled against instead of the real
// package os. Only what a command like jpgo plausibly needs is provided; anything
// else is a build error (exit 2 of the check), never a silent pass-through.
package os

import (
	"io"
	"io/fs"
	realos "os"
	"time"

	"verifharness/simio"
)

type (
	PathError = fs.PathError
	FileInfo  = fs.FileInfo
	FileMode  = fs.FileMode
	Signal    = realos.Signal
)

var (
	ErrNotExist   = fs.ErrNotExist
	ErrPermission = fs.ErrPermission
	ErrExist      = fs.ErrExist
	ErrClosed     = fs.ErrClosed
)

const (
	O_RDONLY = realos.O_RDONLY
	O_WRONLY = realos.O_WRONLY
	O_RDWR   = realos.O_RDWR
	O_CREATE = realos.O_CREATE
	O_TRUNC  = realos.O_TRUNC
	O_APPEND = realos.O_APPEND
)

// Args is set by the harness before every run.
var Args []string

type File struct {
	fd     int // 0,1,2 for the standard streams, -1 for simulated files
	name   string
	r      *simio.Reader
	closed bool
}

var (
	Stdin  = &File{fd: 0, name: "/dev/stdin"}
	Stdout = &File{fd: 1, name: "/dev/stdout"}
	Stderr = &File{fd: 2, name: "/dev/stderr"}
)

func Exit(code int) {
	simio.W.C.Exits++
	panic(simio.ExitPanic{Code: code})
}

func (f *File) Name() string { return f.name }
func (f *File) Fd() uintptr  { return uintptr(f.fd) }

func (f *File) Read(p []byte) (int, error) {
	if f == nil {
		return 0, realos.ErrInvalid
	}
	if f.closed {
		return 0, &PathError{Op: "read", Path: f.name, Err: ErrClosed}
	}
	var n int
	var err error
	switch f.fd {
	case 0:
		n, err = simio.W.Stdin.Read(p)
	case -1:
		if simio.W.IsDir(f.name) {
			return 0, &PathError{Op: "read", Path: f.name, Err: simio.ErrIsDir}
		}
		n, err = f.r.Read(p)
	default:
		return 0, &PathError{Op: "read", Path: f.name, Err: realos.ErrInvalid}
	}
	if err != nil && err != io.EOF {
		err = &PathError{Op: "read", Path: f.name, Err: err}
	}
	return n, err
}

func (f *File) Write(p []byte) (int, error) {
	if f == nil {
		return 0, realos.ErrInvalid
	}
	var n int
	var err error
	switch f.fd {
	case 1:
		n, err = simio.W.Stdout.Write(p)
	case 2:
		n, err = simio.W.Stderr.Write(p)
	default:
		return 0, &PathError{Op: "write", Path: f.name, Err: realos.ErrInvalid}
	}
	if err != nil {
		err = &PathError{Op: "write", Path: f.name, Err: err}
	}
	return n, err
}

func (f *File) WriteString(s string) (int, error) { return f.Write([]byte(s)) }
func (f *File) Sync() error                       { return nil }
func (f *File) Close() error {
	if f == nil {
		return realos.ErrInvalid
	}
	if f.fd >= 0 {
		return nil
	}
	if f.closed {
		return &PathError{Op: "close", Path: f.name, Err: ErrClosed}
	}
	f.closed = true
	return nil
}

type fileInfo struct {
	name string
	size int64
	dir  bool
	fifo bool
}

func (i fileInfo) Name() string { return i.name }
func (i fileInfo) Size() int64  { return i.size }
func (i fileInfo) Mode() FileMode {
	if i.dir {
		return fs.ModeDir | 0755
	}
	if i.fifo {
		return fs.ModeNamedPipe | 0644
	}
	return 0644
}
func (i fileInfo) ModTime() time.Time { return time.Time{} }
func (i fileInfo) IsDir() bool        { return i.dir }
func (i fileInfo) Sys() interface{}   { return nil }

func (f *File) Stat() (FileInfo, error) {
	if f.fd >= 0 {
		return fileInfo{name: f.name, size: 0, fifo: true}, nil
	}
	return Stat(f.name)
}

func Stat(name string) (FileInfo, error) {
	if simio.W.IsDir(name) {
		return fileInfo{name: name, dir: true}, nil
	}
	sz, err := simio.W.Size(name)
	if err != nil {
		return nil, &PathError{Op: "stat", Path: name, Err: err}
	}
	return fileInfo{name: name, size: sz, fifo: simio.W.IsFifo(name)}, nil
}

func Lstat(name string) (FileInfo, error) { return Stat(name) }

func Open(name string) (*File, error) {
	if simio.W.IsDir(name) {
		simio.W.C.Opens++
		return &File{fd: -1, name: name}, nil
	}
	r, err := simio.W.OpenFile(name)
	if err != nil {
		return nil, &PathError{Op: "open", Path: name, Err: err}
	}
	return &File{fd: -1, name: name, r: r}, nil
}

func OpenFile(name string, flag int, perm FileMode) (*File, error) {
	if flag&(O_WRONLY|O_RDWR) != 0 {
		return nil, &PathError{Op: "open", Path: name, Err: ErrPermission}
	}
	return Open(name)
}

func ReadFile(name string) ([]byte, error) {
	f, err := Open(name)
	if err != nil {
		return nil, err
	}
	defer f.Close()
	return io.ReadAll(f)
}

func IsNotExist(err error) bool   { return realos.IsNotExist(err) }
func IsPermission(err error) bool { return realos.IsPermission(err) }
func IsExist(err error) bool      { return realos.IsExist(err) }
func Getenv(key string) string {
	if simio.W == nil {
		return ""
	}
	v, _ := simio.W.Getenv(key)
	return v
}
func LookupEnv(key string) (string, bool) {
	if simio.W == nil {
		return "", false
	}
	return simio.W.Getenv(key)
}
func Environ() []string {
	if simio.W == nil {
		return nil
	}
	return simio.W.Environ()
}
func ExpandEnv(s string) string { return realos.Expand(s, Getenv) }
func Getpid() int               { return 4242 }
