// Package fmt: the Print family writes to the simulated stdout; everything else is
// the real package fmt.
package fmt

import (
	realfmt "fmt"
	"io"

	shimos "verifharness/shim/os"
)

type (
	Stringer   = realfmt.Stringer
	GoStringer = realfmt.GoStringer
	Formatter  = realfmt.Formatter
	State      = realfmt.State
)

func Print(a ...interface{}) (int, error) { return realfmt.Fprint(shimos.Stdout, a...) }
func Printf(format string, a ...interface{}) (int, error) {
	return realfmt.Fprintf(shimos.Stdout, format, a...)
}
func Println(a ...interface{}) (int, error) { return realfmt.Fprintln(shimos.Stdout, a...) }

func Fprint(w io.Writer, a ...interface{}) (int, error) { return realfmt.Fprint(w, a...) }
func Fprintf(w io.Writer, format string, a ...interface{}) (int, error) {
	return realfmt.Fprintf(w, format, a...)
}
func Fprintln(w io.Writer, a ...interface{}) (int, error) { return realfmt.Fprintln(w, a...) }

func Sprint(a ...interface{}) string                 { return realfmt.Sprint(a...) }
func Sprintf(format string, a ...interface{}) string { return realfmt.Sprintf(format, a...) }
func Sprintln(a ...interface{}) string               { return realfmt.Sprintln(a...) }
func Errorf(format string, a ...interface{}) error   { return realfmt.Errorf(format, a...) }

func Sscanf(str string, format string, a ...interface{}) (int, error) {
	return realfmt.Sscanf(str, format, a...)
}
func Sscan(str string, a ...interface{}) (int, error)  { return realfmt.Sscan(str, a...) }
func Fscan(r io.Reader, a ...interface{}) (int, error) { return realfmt.Fscan(r, a...) }
