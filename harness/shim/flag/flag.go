// Package flag: the package-level FlagSet of the real package flag, recreated for
// every simulated run and parsing the simulated argv; ExitOnError is mapped to the
// simulated exit.
package flag

import (
	realflag "flag"
	"time"

	shimos "verifharness/shim/os"
)

type (
	Flag    = realflag.Flag
	FlagSet = realflag.FlagSet
	Value   = realflag.Value
)

var ErrHelp = realflag.ErrHelp

const (
	ContinueOnError = realflag.ContinueOnError
	ExitOnError     = realflag.ExitOnError
	PanicOnError    = realflag.PanicOnError
)

var CommandLine *realflag.FlagSet

// Usage mirrors flag.Usage.
var Usage = func() {
	shimos.Stderr.WriteString("Usage of " + CommandLine.Name() + ":\n")
	PrintDefaults()
}

// Reset is called by the harness before every run.
func Reset() {
	name := "jpgo"
	if len(shimos.Args) > 0 {
		name = shimos.Args[0]
	}
	CommandLine = realflag.NewFlagSet(name, realflag.ContinueOnError)
	CommandLine.SetOutput(shimos.Stderr)
	CommandLine.Usage = func() { Usage() }
}

func Parse() {
	err := CommandLine.Parse(shimos.Args[1:])
	if err == nil {
		return
	}
	if err == realflag.ErrHelp {
		shimos.Exit(0)
	}
	shimos.Exit(2)
}

func Parsed() bool                                     { return CommandLine.Parsed() }
func Args() []string                                   { return CommandLine.Args() }
func Arg(i int) string                                 { return CommandLine.Arg(i) }
func NArg() int                                        { return CommandLine.NArg() }
func NFlag() int                                       { return CommandLine.NFlag() }
func PrintDefaults()                                   { CommandLine.PrintDefaults() }
func Bool(name string, value bool, usage string) *bool { return CommandLine.Bool(name, value, usage) }
func BoolVar(p *bool, name string, value bool, usage string) {
	CommandLine.BoolVar(p, name, value, usage)
}
func String(name string, value string, usage string) *string {
	return CommandLine.String(name, value, usage)
}
func StringVar(p *string, name string, value string, usage string) {
	CommandLine.StringVar(p, name, value, usage)
}
func Int(name string, value int, usage string) *int       { return CommandLine.Int(name, value, usage) }
func IntVar(p *int, name string, value int, usage string) { CommandLine.IntVar(p, name, value, usage) }
func Duration(name string, value time.Duration, usage string) *time.Duration {
	return CommandLine.Duration(name, value, usage)
}
func Var(value Value, name string, usage string) { CommandLine.Var(value, name, usage) }
func Lookup(name string) *Flag                   { return CommandLine.Lookup(name) }
func Set(name, value string) error               { return CommandLine.Set(name, value) }
func NewFlagSet(name string, h realflag.ErrorHandling) *FlagSet {
	fs := realflag.NewFlagSet(name, realflag.ContinueOnError)
	fs.SetOutput(shimos.Stderr)
	return fs
}
