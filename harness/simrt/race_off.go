//go:build !race

package simrt

import "unsafe"

const RaceEnabled = false

func RaceErrors() int { return 0 }

func raceAcquire(p unsafe.Pointer)      {}
func raceReleaseMerge(p unsafe.Pointer) {}
