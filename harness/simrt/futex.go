package simrt

import (
	"syscall"
	"unsafe"
)

// The baton is passed between client goroutines with raw futex(2) calls on plain
// words. syscall.Syscall6 carries no race-detector annotation (unlike channels,
// mutexes, sync/atomic, syscall.Read/Write), so ThreadSanitizer sees no
// happens-before edge between two clients although their execution is strictly
// serialised by the simulator (DESIGN.md §2.2).

const (
	futexWaitOp = 0 // FUTEX_WAIT
	futexWakeOp = 1 // FUTEX_WAKE
)

type timespec struct {
	sec  int64
	nsec int64
}

type gate struct {
	w uint32
	_ [60]byte // one cache line per gate
}

// park blocks until g.w != 0, then clears it.
//
//go:norace
func (g *gate) park() {
	for g.w == 0 {
		syscall.Syscall6(syscall.SYS_FUTEX, uintptr(unsafe.Pointer(&g.w)), futexWaitOp, 0, 0, 0, 0)
	}
	g.w = 0
}

// parkTimeout is park with a timeout; reports whether the gate was opened.
//
//go:norace
func (g *gate) parkTimeout(ns int64) bool {
	if g.w == 0 {
		ts := timespec{ns / 1e9, ns % 1e9}
		syscall.Syscall6(syscall.SYS_FUTEX, uintptr(unsafe.Pointer(&g.w)), futexWaitOp, 0, uintptr(unsafe.Pointer(&ts)), 0, 0)
	}
	if g.w != 0 {
		g.w = 0
		return true
	}
	return false
}

//go:norace
func (g *gate) open() {
	g.w = 1
	syscall.Syscall6(syscall.SYS_FUTEX, uintptr(unsafe.Pointer(&g.w)), futexWakeOp, 1, 0, 0, 0)
}
