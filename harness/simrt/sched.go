// Package simrt is the deterministic cooperative scheduler of the simulation
// (DESIGN.md §2.2). Clients are real goroutines running real library code; exactly
// one holds the baton at any time. Every decision is drawn from one SplitMix64
// stream, or read from a recorded schedule when replaying.
//
// Everything that touches scheduler state is //go:norace and uses neither Go
// maps (the runtime reports map writes even from norace callers), nor channels,
// nor sync/atomic: the race detector must see the clients as the unsynchronised
// goroutines they logically are.
package simrt

import (
	"fmt"
	"os"
	"runtime"
	"time"
	"unsafe"
)

const MaxClients = 512

type Policy int

const (
	PolNone       Policy = iota // S0: run each client to completion (fairness guard only)
	PolBernoulli                // S1: preempt with probability P/65536 at every yield
	PolPCT                      // S2: priorities + d priority change points
	PolSiteBiased               // S3: preempt around write-ish statements
	PolRoundRobin               // S4: fixed quantum
	PolForced                   // replay / sweep: follow Config.Forced exactly
)

func (p Policy) String() string {
	switch p {
	case PolNone:
		return "none"
	case PolBernoulli:
		return "bernoulli"
	case PolPCT:
		return "pct"
	case PolSiteBiased:
		return "sitebiased"
	case PolRoundRobin:
		return "roundrobin"
	case PolForced:
		return "forced"
	}
	return "?"
}

// Event is one transfer of control. Preemption: client Client, about to execute its
// LStep-th yield point, hands over to To. Finish: Client's body returned and To runs next.
type Event struct {
	Client int    `json:"c"`
	LStep  uint64 `json:"s"`
	To     int    `json:"to"`
	Finish bool   `json:"fin,omitempty"`
	Site   int32  `json:"site"`
}

type Config struct {
	Seed      uint64
	Policy    Policy
	P         uint32 // PolBernoulli: probability * 65536
	PHigh     uint32 // PolSiteBiased
	PLow      uint32
	Quantum   uint64 // PolRoundRobin
	PCTDepth  int    // PolPCT
	EstSteps  uint64 // PolPCT: change points are drawn from [1, EstSteps]
	StepCap   uint64 // per operation (see OpBegin)
	First     int    // first client to run; -1: drawn
	Forced    []Event
	SiteWrite []bool // instr's write-ish classification, indexed by site id
	// OnStep is called by the running client at every yield point before the
	// scheduling decision. It must be a //go:norace function.
	OnStep func(client int, site int32)
	// OnSwitch is called by the client that is about to be parked. //go:norace.
	OnSwitch func(from, to int, site int32)
}

type Outcome struct {
	Steps       uint64
	ClientSteps [MaxClients]uint64
	Events      []Event
	Preemptions int
	First       int
	Digest      uint64
	BodyPanics  [MaxClients]string
	Starved     int  // fairness guard fired
	Deadlocks   int  // every live client blocked on a lock held by another
	Spawned     int  // goroutines started by the library and run as simulated clients
	Aborted     bool // goroutine capacity exceeded: the run is not judged
}

// CapacityExceeded is raised in a client whose library call wants to start more
// goroutines than the simulator can hold; the run is then abandoned, not judged.
type CapacityExceeded struct{}

// StepCapExceeded is the panic value raised from a yield point when an operation
// runs longer than Config.StepCap.
type StepCapExceeded struct{}

type state struct {
	active        bool
	cfg           *Config
	rng           uint64
	n             int
	nAlive        int
	cur           int
	alive         [MaxClients]bool
	gates         [MaxClients]gate
	done          gate
	endSync       uint64 // address used for the final release/acquire only
	step          uint64
	lstep         [MaxClients]uint64
	opSteps       [MaxClients]uint64
	lastSite      [MaxClients]int32
	prevW         [MaxClients]bool
	since         uint64
	events        []Event
	npre          int
	digest        uint64
	starved       int
	first         int
	blockedStreak uint64
	deadlocks     int
	spawned       int
	timerJumps    int
	nHarness      int
	aborted       bool
	// PCT
	prio    [MaxClients]int
	cps     [8]uint64
	ncp     int
	lowPrio int
	// forced
	fidx  [MaxClients]int
	flist [MaxClients][]Event
	ffin  [MaxClients]int // To for finish events, -1 none
	// reference (no clients) mode
	refCap   uint64
	refSteps uint64
	// coverage
	siteSeen2 []uint8
	pairBits  []uint64
	panics    [MaxClients]string
}

var s state

// Coverage accumulates over the life of the process.
var (
	TotalSteps     uint64
	TotalSwitches  uint64
	TotalStarved   uint64
	idleSteps      uint64
	fairnessWindow uint64 = 50000
)

//go:norace
func next64() uint64 {
	s.rng += 0x9e3779b97f4a7c15
	z := s.rng
	z = (z ^ (z >> 30)) * 0xbf58476d1ce4e5b9
	z = (z ^ (z >> 27)) * 0x94d049bb133111eb
	return z ^ (z >> 31)
}

// Mix is the SplitMix64 finaliser, exported so that every component derives its
// stream from VERIF_SEED the same way.
func Mix(a, b uint64) uint64 {
	z := a + 0x9e3779b97f4a7c15*(b+1)
	z = (z ^ (z >> 30)) * 0xbf58476d1ce4e5b9
	z = (z ^ (z >> 27)) * 0x94d049bb133111eb
	return z ^ (z >> 31)
}

//go:norace
func mixDigest(v uint64) {
	s.digest = (s.digest ^ v) * 0x100000001b3
	s.digest ^= s.digest >> 29
}

// InitCoverage sizes the coverage tables; call once with the number of sites.
func InitCoverage(nSites int) {
	s.siteSeen2 = make([]uint8, nSites+1)
	s.pairBits = make([]uint64, 1<<16)
}

// CoverageCounts returns (#sites executed while >=2 clients were live, #distinct
// (preempted-at, resumed-at) site pairs, approximated by a 4M-bit Bloom-style set).
func CoverageCounts() (sites2 int, pairs int) {
	for _, b := range s.siteSeen2 {
		if b != 0 {
			sites2++
		}
	}
	for _, w := range s.pairBits {
		for ; w != 0; w &= w - 1 {
			pairs++
		}
	}
	return
}

// SitesHit lists the sites executed while >=2 clients were live.
func SitesHit() []int {
	var out []int
	for i, b := range s.siteSeen2 {
		if b != 0 {
			out = append(out, i)
		}
	}
	return out
}

// Active reports whether a simulated run is in progress.
//
//go:norace
func Active() bool { return s.active }

// Cur returns the running client.
//
//go:norace
func Cur() int { return s.cur }

// GlobalStep returns the global step counter (the simulation's clock).
//
//go:norace
func GlobalStep() uint64 { return s.step }

// LocalStep returns the running client's own step counter.
//
//go:norace
func LocalStep() uint64 { return s.lstep[s.cur] }

// LastSite returns the site of the previous yield of client c (the statement it
// executed last).
//
//go:norace
func LastSite(c int) int32 { return s.lastSite[c] }

// ---- simulated clock: 1 µs per executed statement, plus injected forward jumps, plus
// discrete-event jumps to the next timer when every client is blocked.
var clockNs int64

// RealTimersHook reports whether the code under test arms real (unsimulated) timers.
var RealTimersHook func() bool

// TimerHook fires due timers and returns the earliest pending deadline (0: none).
var TimerHook func() int64

//go:norace
func ClockNow() int64 { return clockNs }

//go:norace
func ClockJump(ns int64) {
	if ns > 0 {
		clockNs += ns
	}
}

//go:norace
func ClockReset() { clockNs = 0 }

var stampSeq uint64

// Stamp returns the next value of a global event sequence number. Execution is
// serialised, so stamps are totally ordered consistently with real time and never tie.
//
//go:norace
func Stamp() uint64 { stampSeq++; return stampSeq }

// NAlive returns the number of clients that have not finished.
//
//go:norace
func NAlive() int { return s.nAlive }

// OpBegin resets the per-operation step budget of the running client (or of the
// reference mode when no run is active).
//
//go:norace
func OpBegin() {
	if s.active {
		s.opSteps[s.cur] = 0
	} else {
		s.refSteps = 0
	}
}

// RefMode arms the step cap for library calls made outside a run (reference
// evaluations on the calling goroutine). cap==0 disarms it.
//
//go:norace
func RefMode(cap uint64) {
	Quiesce()
	s.refCap = cap
	s.refSteps = 0
}

// Quiesce waits (up to 2 s) until the real goroutines that the library started during an
// earlier call outside a run have finished: one that is still winding down when a run
// begins would execute yield points as if it were the running client.
func Quiesce() {
	if RealSpawned == nil || RealSpawned() == 0 {
		return
	}
	deadline := time.Now().Add(2 * time.Second)
	for RealSpawned() > 0 && time.Now().Before(deadline) {
		runtime.Gosched()
		if RealSpawned() > 0 {
			time.Sleep(20 * time.Microsecond)
		}
	}
	if RealSpawned() > 0 {
		LeakedReal++
	}
}

// mainGID is the goroutine that drives the harness (library calls outside a run are made
// on it); curGID parses the running goroutine's id out of runtime.Stack (slow: only used
// once a reference budget is spent while library goroutines are alive).
var mainGID = curGID()

func curGID() uint64 {
	var buf [64]byte
	n := runtime.Stack(buf[:], false)
	var id uint64
	for _, c := range buf[len("goroutine "):n] {
		if c < '0' || c > '9' {
			break
		}
		id = id*10 + uint64(c-'0')
	}
	return id
}

// LeakedReal counts calls after which a real library goroutine was still alive 2 s later.
var LeakedReal uint64

// RefSteps returns the steps counted since the last OpBegin outside a run.
//
//go:norace
func RefSteps() uint64 { return s.refSteps }

// RealSpawned reports how many real goroutines the library started outside a run and
// that are still running (wired by the harness).
var RealSpawned func() int32

// noPreempt is provided by the instrumented copy (critical sections).
var noPreempt *int

// SetNoPreempt wires the instrumented copy's critical-section counter.
func SetNoPreempt(p *int) { noPreempt = p }

// Yield is the hook installed into the instrumented copy; harness code calls it
// too (with negative site ids) where it wants to be preemptible.
//
//go:norace
func Yield(site int) {
	clockNs += 1000
	if !s.active {
		idleSteps++
		if site != -4 {
			s.blockedStreak = 0
		}
		s.refSteps++
		if s.refCap != 0 && s.refSteps > s.refCap {
			if RealSpawned != nil && RealSpawned() > 0 && curGID() != mainGID {
				// a goroutine the library started: the budget is the caller's, who finds
				// it spent at its own next step; unwinding this goroutine instead would
				// leave the caller waiting for it for ever
				return
			}
			s.refSteps = 0
			panic(StepCapExceeded{})
		}
		return
	}
	c := s.cur
	s.step++
	s.lstep[c]++
	s.opSteps[c]++
	s.since++
	if site != -4 {
		s.blockedStreak = 0
	}
	st := int32(site)
	if s.nAlive >= 2 && site >= 0 && site < len(s.siteSeen2) {
		s.siteSeen2[site] = 1
	}
	if s.cfg.OnStep != nil {
		s.cfg.OnStep(c, st)
	}
	if s.cfg.StepCap != 0 && s.opSteps[c] > s.cfg.StepCap {
		s.opSteps[c] = 0
		s.lastSite[c] = st
		panic(StepCapExceeded{})
	}
	if s.nAlive >= 2 && (noPreempt == nil || *noPreempt == 0) {
		to := decide(c, st)
		if to >= 0 && to != c && s.alive[to] {
			s.lastSite[c] = st
			transfer(c, to, st, false)
			// resumed here
			return
		}
	}
	s.lastSite[c] = st
}

// Pass is a voluntary yield: the running client always hands over to another live
// client (used by the observer, which must never monopolise the baton).
//
//go:norace
func Pass(site int) {
	if !s.active {
		return
	}
	c := s.cur
	s.step++
	s.lstep[c]++
	s.opSteps[c]++
	s.since++
	st := int32(site)
	if s.cfg.OnStep != nil {
		s.cfg.OnStep(c, st)
	}
	s.lastSite[c] = st
	if s.nAlive < 2 {
		return
	}
	to := -1
	switch s.cfg.Policy {
	case PolForced:
		to = decide(c, st)
		if to == c || to < 0 || !s.alive[to] {
			to = nextCyclic(c)
		}
	case PolPCT:
		s.lowPrio--
		s.prio[c] = s.lowPrio
		to = bestPrio()
	case PolBernoulli, PolSiteBiased:
		to = pickOther(c)
	default:
		to = nextCyclic(c)
	}
	if to >= 0 && to != c {
		transfer(c, to, st, false)
	}
}

// Spawn makes body a new simulated client (the library executed a go statement). It
// is scheduled like any other client; the spawning client keeps the baton.
//
//go:norace
func Spawn(body func()) {
	if !s.active {
		body()
		return
	}
	// reuse the slot of a finished library goroutine (lowest first: deterministic); its
	// local step counter keeps counting, so (slot, local step) stays unique in a schedule
	i := -1
	for k := s.nHarness; k < s.n; k++ {
		if !s.alive[k] {
			i = k
			break
		}
	}
	if i < 0 {
		if s.n >= MaxClients {
			// beyond the simulator's capacity: the run is abandoned (not judged); the panic
			// unwinds the library call of the spawning client, the harness marks the run
			s.aborted = true
			panic(CapacityExceeded{})
		}
		i = s.n
		s.n++
		s.lstep[i] = 0
	}
	s.alive[i] = true
	s.nAlive++
	s.gates[i].w = 0
	s.opSteps[i] = 0
	s.lastSite[i] = -1000
	s.lowPrio--
	s.prio[i] = s.lowPrio
	s.spawned++
	go clientMain(i, body)
}

// BlockedYield is called by a client that found a lock held by a parked client: it
// must give way. With nobody to give way to it just burns a step, so a genuine
// deadlock ends in StepCapExceeded (outcome "stepcap", class no-return).
//
//go:norace
func BlockedYield() {
	if !s.active {
		if RealSpawned != nil && RealSpawned() > 0 {
			// reference evaluation with real goroutines started by the library: wait for real
			runtime.Gosched()
			return
		}
		if RealTimersHook != nil && RealTimersHook() {
			time.Sleep(200 * time.Microsecond)
		}
		// outside a run nobody else can release the lock
		s.blockedStreak++
		if s.blockedStreak > 64 && !(RealTimersHook != nil && RealTimersHook()) {
			s.blockedStreak = 0
			panic(StepCapExceeded{})
		}
		Yield(-4)
		return
	}
	// blockedStreak counts consecutive blocked acquisitions with no ordinary step by
	// anybody in between. The baton is passed round-robin (not by the run's policy), so
	// after 2 full rounds every live client has had two turns and all of them are still
	// blocked: nobody can release anything any more — a deadlock.
	s.blockedStreak++
	if s.blockedStreak > uint64(2*s.nAlive+2) {
		s.blockedStreak = 0
		if RealTimersHook != nil && RealTimersHook() {
			// the library waits for a REAL timer: not a deadlock, real time has to pass
			time.Sleep(200 * time.Microsecond)
			goto pass
		}
		if TimerHook != nil {
			if nx := TimerHook(); nx > clockNs {
				// nobody can run, but a timer is pending: jump the clock to it
				clockNs = nx
				TimerHook()
				s.timerJumps++
				goto pass
			}
		}
		s.deadlocks++
		panic(StepCapExceeded{})
	}
pass:
	if s.nAlive < 2 {
		return
	}
	passFair(-4) // does not touch blockedStreak: only an ordinary step by somebody resets it
}

// passFair hands the baton to the next live client in cyclic order (recorded like any
// other transfer; a replay follows the recording).
//
//go:norace
func passFair(site int) {
	c := s.cur
	s.step++
	s.lstep[c]++
	s.since++
	// (a blocked poll does not count against the operation's step budget: how long a
	// client waits depends on the others; a wait that can never end is the deadlock
	// detector's business)
	st := int32(site)
	if s.cfg.OnStep != nil {
		s.cfg.OnStep(c, st)
	}
	s.lastSite[c] = st
	to := -1
	switch s.cfg.Policy {
	case PolForced:
		to = decide(c, st)
	case PolPCT:
		// a blocked client drops to the lowest priority: otherwise the priority scheduler
		// hands the baton straight back to it and whoever it waits for starves
		s.lowPrio--
		s.prio[c] = s.lowPrio
		to = bestPrio()
	}
	if to < 0 || to == c || !s.alive[to] {
		to = nextCyclic(c)
	}
	if to >= 0 && to != c {
		transfer(c, to, st, false)
	}
}

//go:norace
func isWrite(site int32) bool {
	w := s.cfg.SiteWrite
	return site >= 0 && int(site) < len(w) && w[site]
}

//go:norace
func pickOther(c int) int {
	k := int(next64() % uint64(s.nAlive-1))
	for i := 0; i < s.n; i++ {
		if i == c || !s.alive[i] {
			continue
		}
		if k == 0 {
			return i
		}
		k--
	}
	return -1
}

//go:norace
func nextCyclic(c int) int {
	for d := 1; d <= s.n; d++ {
		i := (c + d) % s.n
		if s.alive[i] && i != c {
			return i
		}
	}
	return -1
}

//go:norace
func bestPrio() int {
	b := -1
	for i := 0; i < s.n; i++ {
		if s.alive[i] && (b < 0 || s.prio[i] > s.prio[b]) {
			b = i
		}
	}
	return b
}

// decide returns the client to run next (c to continue).
//
//go:norace
func decide(c int, site int32) int {
	cfg := s.cfg
	switch cfg.Policy {
	case PolForced:
		l := s.flist[c]
		i := s.fidx[c]
		for i < len(l) && !l[i].Finish && l[i].LStep < s.lstep[c] {
			i++
		}
		s.fidx[c] = i
		if i < len(l) && !l[i].Finish && l[i].LStep == s.lstep[c] {
			s.fidx[c] = i + 1
			return l[i].To
		}
		return c
	case PolBernoulli:
		if uint32(next64()&0xffff) < cfg.P {
			return pickOther(c)
		}
	case PolSiteBiased:
		p := cfg.PLow
		w := isWrite(site)
		if w || s.prevW[c] {
			p = cfg.PHigh
		}
		s.prevW[c] = w
		if uint32(next64()&0xffff) < p {
			return pickOther(c)
		}
	case PolRoundRobin:
		if s.since >= cfg.Quantum {
			return nextCyclic(c)
		}
	case PolPCT:
		for i := 0; i < s.ncp; i++ {
			if s.cps[i] == s.step {
				s.lowPrio--
				s.prio[c] = s.lowPrio
			}
		}
		return bestPrio()
	}
	if s.since > fairnessWindow {
		// fairness guard: a client spinning on something another client must
		// provide (possible only in changed code) does not hang the run
		s.starved++
		return nextCyclic(c)
	}
	return c
}

//go:norace
func record(ev Event) {
	if len(s.events) < cap(s.events) {
		s.events = append(s.events, ev)
	}
	fin := uint64(0)
	if ev.Finish {
		fin = 1
	}
	mixDigest(uint64(ev.Client)<<56 ^ uint64(ev.To)<<48 ^ fin<<47 ^ ev.LStep<<20 ^ uint64(uint32(ev.Site)))
}

// transfer parks the running client c and lets `to` run.
//
//go:norace
func transfer(c, to int, site int32, finish bool) {
	record(Event{Client: c, LStep: s.lstep[c], To: to, Finish: finish, Site: site})
	if !finish {
		s.npre++
		if len(s.pairBits) > 0 {
			h := Mix(uint64(uint32(site)), uint64(uint32(s.lastSite[to]))) & (uint64(len(s.pairBits))*64 - 1)
			s.pairBits[h>>6] |= 1 << (h & 63)
		}
	}
	if s.cfg.OnSwitch != nil {
		s.cfg.OnSwitch(c, to, site)
	}
	s.since = 0
	s.cur = to
	s.gates[to].open()
	if !finish {
		s.gates[c].park()
	}
}

//go:norace
func finish(c int) {
	s.alive[c] = false
	s.nAlive--
	if s.nAlive == 0 {
		s.active = false
		s.done.open()
		return
	}
	to := -1
	switch s.cfg.Policy {
	case PolForced:
		// the next finish event recorded for this slot (slots of library goroutines are reused)
		l := s.flist[c]
		for i := s.fidx[c]; i < len(l); i++ {
			if l[i].Finish {
				s.fidx[c] = i + 1
				if t := l[i].To; t >= 0 && t < s.n && s.alive[t] {
					to = t
				}
				break
			}
		}
	case PolBernoulli, PolSiteBiased:
		k := int(next64() % uint64(s.nAlive))
		for i := 0; i < s.n; i++ {
			if !s.alive[i] {
				continue
			}
			if k == 0 {
				to = i
				break
			}
			k--
		}
	case PolRoundRobin:
		to = nextCyclic(c)
	case PolPCT:
		to = bestPrio()
	}
	if to < 0 {
		for i := 0; i < s.n; i++ {
			if s.alive[i] {
				to = i
				break
			}
		}
	}
	transfer(c, to, s.lastSite[c], true)
}

func clientMain(i int, body func()) {
	s.gates[i].park()
	defer func() {
		if r := recover(); r != nil {
			if _, cap := r.(CapacityExceeded); cap {
				// abandoned run
			} else if _, stuck := r.(StepCapExceeded); stuck && i >= s.nHarness {
				// a goroutine started by the library that can never proceed: it just ends;
				// whoever waits for it ends in StepCapExceeded too and is judged there
			} else {
				setPanic(i, fmt.Sprint(r))
			}
		}
		raceReleaseMerge(unsafe.Pointer(&s.endSync))
		finish(i)
	}()
	body()
}

//go:norace
func setPanic(i int, msg string) { s.panics[i] = msg }

var eventBuf = make([]Event, 0, 1<<16)

//go:norace
func setup(cfg *Config, n int) {
	s.cfg = cfg
	s.rng = cfg.Seed
	s.n = n
	s.nHarness = n
	s.nAlive = n
	s.step = 0
	s.since = 0
	s.events = eventBuf[:0]
	s.npre = 0
	s.digest = 0xcbf29ce484222325
	s.starved = 0
	s.blockedStreak = 0
	s.deadlocks = 0
	s.spawned = 0
	s.timerJumps = 0
	s.aborted = false
	s.done.w = 0
	for i := 0; i < MaxClients; i++ {
		s.alive[i] = i < n
		s.gates[i].w = 0
		s.lstep[i] = 0
		s.opSteps[i] = 0
		s.lastSite[i] = -1000
		s.prevW[i] = false
		s.fidx[i] = 0
		s.flist[i] = s.flist[i][:0]
		s.ffin[i] = -1
		s.panics[i] = ""
	}
	if noPreempt != nil {
		*noPreempt = 0
	}
	switch cfg.Policy {
	case PolPCT:
		// random distinct priorities n..1 (Fisher-Yates), change points
		for i := 0; i < n; i++ {
			s.prio[i] = i + 1 + 8
		}
		for i := n - 1; i > 0; i-- {
			j := int(next64() % uint64(i+1))
			s.prio[i], s.prio[j] = s.prio[j], s.prio[i]
		}
		s.lowPrio = 8
		s.ncp = cfg.PCTDepth
		if s.ncp > len(s.cps) {
			s.ncp = len(s.cps)
		}
		est := cfg.EstSteps
		if est < 2 {
			est = 2
		}
		for i := 0; i < s.ncp; i++ {
			s.cps[i] = 1 + next64()%est
		}
	case PolForced:
		for _, ev := range cfg.Forced {
			if ev.Client < 0 || ev.Client >= MaxClients {
				continue
			}
			s.flist[ev.Client] = append(s.flist[ev.Client], ev)
		}
	}
	first := cfg.First
	if first < 0 || first >= n {
		if cfg.Policy == PolPCT {
			first = bestPrio()
		} else if cfg.Policy == PolNone || cfg.Policy == PolForced {
			first = 0
		} else {
			first = int(next64() % uint64(n))
		}
	}
	s.first = first
	s.cur = first
	s.active = true
}

// Run executes the bodies as simulated clients under cfg and returns when all of
// them have finished. It must be called from a goroutine that is not a client.
func Run(cfg *Config, bodies []func()) *Outcome {
	n := len(bodies)
	if n == 0 || n > MaxClients {
		panic("simrt: bad client count")
	}
	if s.active {
		panic("simrt: nested Run")
	}
	Quiesce()
	setup(cfg, n)
	for i := 0; i < n; i++ {
		go clientMain(i, bodies[i])
	}
	s.gates[s.first].open()
	supervise()
	raceAcquire(unsafe.Pointer(&s.endSync))
	return collect()
}

//go:norace
func collect() *Outcome {
	o := &Outcome{Steps: s.step, Preemptions: s.npre, First: s.first, Starved: s.starved, Deadlocks: s.deadlocks, Spawned: s.spawned, Aborted: s.aborted}
	o.Events = make([]Event, len(s.events))
	copy(o.Events, s.events)
	for i := 0; i < s.n; i++ {
		o.ClientSteps[i] = s.lstep[i]
		o.BodyPanics[i] = s.panics[i]
		mixDigest(s.lstep[i])
	}
	o.Digest = s.digest
	TotalSteps += s.step
	TotalSwitches += uint64(len(s.events))
	TotalStarved += uint64(s.starved)
	return o
}

//go:norace
func supervise() {
	last := uint64(0)
	stuck := 0
	for {
		if s.done.parkTimeout(1e9) {
			return
		}
		if s.step == last {
			stuck++
			if stuck >= 20 {
				fmt.Fprintf(os.Stderr, "simrt: simulator lost control: no step for 20 s; client %d blocked after site %d (local step %d). "+
					"The code under test blocks on something the rewrite does not cover (channel, WaitGroup, Cond, goroutine).\n",
					s.cur, s.lastSite[s.cur], s.lstep[s.cur])
				os.Exit(2)
			}
		} else {
			stuck = 0
			last = s.step
		}
	}
}
