//go:build race

package simrt

import (
	"runtime"
	"unsafe"
)

// RaceEnabled reports whether the binary was built with -race.
const RaceEnabled = true

// RaceErrors is the number of data races ThreadSanitizer has reported so far.
func RaceErrors() int { return runtime.RaceErrors() }

func raceAcquire(p unsafe.Pointer)      { runtime.RaceAcquire(p) }
func raceReleaseMerge(p unsafe.Pointer) { runtime.RaceReleaseMerge(p) }
