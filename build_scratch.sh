#!/bin/sh
# usage: build_scratch.sh <scratch-dir> [race|norace|both]
# Instruments /repo's working tree into <scratch>/repo, copies the harness next to it
# and builds <scratch>/simharness-race and/or <scratch>/simharness.
set -e
HERE="$(cd "$(dirname "$0")" && pwd)"
. "$HERE/env.sh"
S="$1"; MODE="${2:-both}"
REPO="${VERIF_REPO:-/repo}"
[ -x "$HERE/bin/instr" ] || (cd "$HERE/instr" && go build -o "$HERE/bin/instr" .)
mkdir -p "$S"
"$HERE/bin/instr" -src "$REPO" -out "$S/repo" -jpgo-out "$S/h/jpgomain" -report "$S/report.json" >"$S/instr.log" 2>&1 || { cat "$S/instr.log" >&2; exit 2; }
cp -r "$HERE/harness/." "$S/h/"
cp "$REPO/go.sum" "$S/h/go.sum" 2>/dev/null || true
cd "$S/h"
if [ "$MODE" = race ] || [ "$MODE" = both ]; then
  go build -race -tags verif -o "$S/simharness-race" ./cmd/simharness >"$S/build-race.log" 2>&1 &
  P1=$!
fi
if [ "$MODE" = norace ] || [ "$MODE" = both ]; then
  go build -tags verif -o "$S/simharness" ./cmd/simharness >"$S/build.log" 2>&1 &
  P2=$!
fi
RC=0
[ -n "$P1" ] && { wait $P1 || { cat "$S/build-race.log" >&2; RC=2; }; }
[ -n "$P2" ] && { wait $P2 || { cat "$S/build.log" >&2; RC=2; }; }
exit $RC
