#!/usr/bin/env python3
"""usage: wave_import.py <worktree> <prop> <letter> <origin text>
Copies <worktree>/out/m{1,2,3} to seeded/<prop>-<letter>-m<i>/, confirms each change
(mutant_confirm.sh), runs the quick tier of its property against it (mutant_eval.sh) and
writes meta.json with the first verdict. Not a registered check."""
import json, os, shutil, subprocess, sys, re
wt, prop, letter, origin = sys.argv[1:5]
here = os.path.dirname(os.path.abspath(__file__))
for i in (1, 2, 3):
    src = os.path.join(wt, "out", "m%d" % i)
    mid = "%s-%s-m%d" % (prop, letter, i)
    dst = os.path.join(here, "seeded", mid)
    if not os.path.isdir(src):
        print("IMPORT %s missing" % mid); continue
    os.makedirs(dst, exist_ok=True)
    for f in os.listdir(src):
        if os.path.isfile(os.path.join(src, f)):
            shutil.copy(os.path.join(src, f), os.path.join(dst, f))
    c = subprocess.run([os.path.join(here, "mutant_confirm.sh"), dst], stdout=subprocess.PIPE, stderr=subprocess.STDOUT, text=True)
    confirm = [l for l in c.stdout.splitlines() if l.startswith("CONFIRM")]
    ok = c.returncode == 0
    verdict, caught_as = "not-run", ""
    if ok:
        e = subprocess.run([os.path.join(here, "mutant_eval.sh"), os.path.join(dst, "patch.diff"), prop, "quick"], stdout=subprocess.PIPE, stderr=subprocess.STDOUT, text=True)
        m = re.search(r"RESULT rc=(\d+) \((\w+)\) out=(\S+)", e.stdout)
        if m:
            verdict = {"CAUGHT": "caught", "MISSED": "missed"}.get(m.group(2), "exit 2")
            rep = [l.strip() for l in e.stdout.splitlines() if "REPRODUCED" in l or "class=" in l]
            caught_as = rep[0] if rep else ""
            if verdict != "missed" and verdict != "caught":
                open(os.path.join(dst, "eval_trouble.log"), "w").write(e.stdout[-6000:])
            shutil.rmtree(m.group(3), ignore_errors=True)
        else:
            verdict = "exit 2"
            open(os.path.join(dst, "eval_trouble.log"), "w").write(e.stdout[-6000:])
    notes = open(os.path.join(dst, "notes.md")).read().splitlines() if os.path.exists(os.path.join(dst, "notes.md")) else []
    meta = {"id": mid, "breaks_property": prop, "origin": origin, "needs_to_manifest": notes[:40],
            "confirmed_by_me": (confirm[0] if confirm else c.stdout[-400:]) + (" (confirmed)" if ok else " (NOT CONFIRMED)"),
            "ran": ["./mutant_confirm.sh seeded/%s" % mid, "./mutant_eval.sh seeded/%s/patch.diff %s quick" % (mid, prop)],
            "first_verdict": verdict, "final_verdict": verdict, "caught_as": caught_as, "strengthening": ""}
    json.dump(meta, open(os.path.join(dst, "meta.json"), "w"), indent=1)
    print("IMPORT %s confirm=%s verdict=%s %s" % (mid, "ok" if ok else "FAILED", verdict, caught_as[:150]), flush=True)
