#!/bin/sh
# Re-runs every seeded change (and the negative controls) through the quick tier of its
# property in a scratch worktree and prints one line each. Not a registered check: it
# validates the machinery itself. usage: mutants_all.sh [pattern]
cd "$(dirname "$0")"
PAT="${1:-}"
for d in seeded/*${PAT}*/; do
  id=$(basename "$d")
  [ -f "$d/patch.diff" ] || continue
  props=$(python3 -c "import json;m=json.load(open('$d/meta.json'));p=m.get('breaks_property');print(p if p else 'C06 C12 C13 C19')")
  want=$(python3 -c "import json;m=json.load(open('$d/meta.json'));print('caught' if m.get('breaks_property') else 'silent')")
  for p in $props; do
    out=$(timeout 2400 ./mutant_eval.sh "$d/patch.diff" "$p" 2>&1 | grep -E "^RESULT" | head -1)
    odir=$(echo "$out" | sed -n 's/.*out=\(\/var\/tmp\/mutout-[A-Za-z0-9]*\).*/\1/p')
    case "$out" in
      *CAUGHT*) got=caught;; *MISSED*) got=silent;; *) got=trouble;;
    esac
    st=OK; [ "$got" = "$want" ] || st=UNEXPECTED
    echo "$st $id $p want=$want got=$got"
    [ -n "$odir" ] && rm -rf "$odir"
  done
done
