# sourced by every script: offline Go environment
export GOFLAGS=-mod=mod GOPROXY=off GOSUMDB=off GOTOOLCHAIN=local
