// instr: seam-inserting source rewriter for the deterministic simulation of
// jmespath/go-jmespath (DESIGN.md §2.1).
//
// It never touches /repo. It copies the working tree into a scratch directory
// and rewrites the copy by byte-offset splicing (never by re-printing the AST),
// so every original line keeps its line number:
//
//	pass 1 (go/types): map ranges -> zzverifrt.MapPairs*, sync Lock/Unlock/Do ->
//	        non-preemptible sections
//	pass 2 (syntax):   zzverifrt.Y(<site>) before every statement
//	pass 3:            generated zz_verif_reset.go re-assigning every package
//	        level variable from its initialiser (run isolation)
//	jpgo:              cmd/jpgo/*.go -> package jpgomain compiled against shims
//
// Exit status: 0 ok, 2 anything else (never 1: this tool cannot find violations).
package main

import (
	"bytes"
	"encoding/json"
	"flag"
	"fmt"
	"go/ast"
	"go/importer"
	"go/parser"
	"go/token"
	"go/types"
	"io/ioutil"
	"os"
	"path/filepath"
	"sort"
	"strconv"
	"strings"
)

const rtImportName = "zzverifrt"

type edit struct {
	pos, end int // byte offsets; pos==end is an insertion
	text     string
	seq      int
}

type editor struct {
	src   []byte
	edits []edit
}

func (e *editor) insert(pos int, text string) {
	e.edits = append(e.edits, edit{pos, pos, text, len(e.edits)})
}
func (e *editor) replace(pos, end int, text string) {
	e.edits = append(e.edits, edit{pos, end, text, len(e.edits)})
}
// extract renders src[pos:end] with the edits lying inside that range applied, and drops
// those edits: the text is going to be moved somewhere else.
func (e *editor) extract(pos, end int) string {
	sub := &editor{src: e.src[pos:end]}
	var rest []edit
	for _, ed := range e.edits {
		if ed.pos >= pos && ed.end <= end {
			sub.edits = append(sub.edits, edit{ed.pos - pos, ed.end - pos, ed.text, ed.seq})
		} else {
			rest = append(rest, ed)
		}
	}
	e.edits = rest
	return string(sub.render())
}

func (e *editor) render() []byte {
	sort.SliceStable(e.edits, func(i, j int) bool {
		if e.edits[i].pos != e.edits[j].pos {
			return e.edits[i].pos < e.edits[j].pos
		}
		return e.edits[i].seq < e.edits[j].seq
	})
	var out bytes.Buffer
	cur := 0
	for _, ed := range e.edits {
		if ed.pos < cur {
			fatalf("internal: overlapping edits at offset %d", ed.pos)
		}
		out.Write(e.src[cur:ed.pos])
		out.WriteString(ed.text)
		cur = ed.end
	}
	out.Write(e.src[cur:])
	return out.Bytes()
}

func fatalf(format string, a ...interface{}) {
	fmt.Fprintf(os.Stderr, "instr: "+format+"\n", a...)
	os.Exit(2)
}

// Site describes one yield point.
type Site struct {
	ID    int    `json:"id"`
	File  string `json:"file"`
	Line  int    `json:"line"`
	Func  string `json:"func"`
	Write bool   `json:"write"` // statement looks like a store through index/selector/deref or append/copy
	Pkg   string `json:"pkg"`
}

type Report struct {
	Sites      []Site     `json:"sites"`
	MapRanges  []string   `json:"map_ranges"`
	SyncSites  []string   `json:"sync_sites"`
	GoStmts    []string   `json:"go_stmts"`    // not simulated: reported so the driver can warn
	ChanOps    []string   `json:"chan_ops"`    // not simulated
	ReflectMap []string   `json:"reflect_map"` // MapRange/MapKeys/sync.Map.Range the seam cannot see
	Globals    []string   `json:"globals"`
	Packages   []string   `json:"packages"`
	JpgoFiles  []string   `json:"jpgo_files"`
	TypeErrors []string   `json:"type_errors"`
	Functions  []FuncInfo `json:"functions"` // built-in functions found in the library's function table
	LexChars   []string   `json:"lex_chars"` // every character literal in files whose name contains "lex": the lexer's alphabet
}

// FuncInfo is one entry of a map[string]functionEntry-like table: name, arity and the
// argument type names as written in the source (best effort, purely syntactic).
type FuncInfo struct {
	Name     string     `json:"name"`
	Args     [][]string `json:"args"`
	Variadic bool       `json:"variadic"`
}

var (
	report  Report
	modPath string
)

func main() {
	src := flag.String("src", "/repo", "source tree (working tree, not .git)")
	out := flag.String("out", "", "scratch output directory for the instrumented module")
	jpgoOut := flag.String("jpgo-out", "", "directory receiving the transformed cmd/jpgo as package jpgomain")
	shimPrefix := flag.String("shim-prefix", "verifharness/shim", "import path prefix of the shim packages")
	sitesOut := flag.String("report", "", "where to write the JSON report (site table etc.)")
	flag.Parse()
	if *out == "" {
		fatalf("-out is required")
	}
	copyTree(*src, *out)
	modPath = readModulePath(filepath.Join(*out, "go.mod"))
	writeRuntime(*out)

	pkgDirs := findPackages(*out)
	for _, dir := range pkgDirs {
		instrumentPackage(*out, dir)
	}
	if *jpgoOut != "" {
		transformJpgo(filepath.Join(*out, "cmd", "jpgo"), *jpgoOut, *shimPrefix)
	}
	if *sitesOut != "" {
		b, _ := json.MarshalIndent(report, "", " ")
		if err := ioutil.WriteFile(*sitesOut, b, 0644); err != nil {
			fatalf("%v", err)
		}
	}
	fmt.Printf("instr: %d sites, %d map ranges, %d sync sites, %d packages\n",
		len(report.Sites), len(report.MapRanges), len(report.SyncSites), len(report.Packages))
}

func readModulePath(gomod string) string {
	b, err := ioutil.ReadFile(gomod)
	if err != nil {
		fatalf("%v", err)
	}
	for _, l := range strings.Split(string(b), "\n") {
		l = strings.TrimSpace(l)
		if strings.HasPrefix(l, "module") {
			return strings.Trim(strings.TrimSpace(strings.TrimPrefix(l, "module")), `"`)
		}
	}
	fatalf("no module line in %s", gomod)
	return ""
}

// copyTree copies the working tree without VCS data, nested modules and test files.
func copyTree(src, dst string) {
	err := filepath.Walk(src, func(p string, info os.FileInfo, err error) error {
		if err != nil {
			return err
		}
		rel, _ := filepath.Rel(src, p)
		if rel == "." {
			return os.MkdirAll(dst, 0755)
		}
		base := filepath.Base(p)
		if info.IsDir() {
			if base == ".git" || base == ".github" || base == "compliance" || base == "testdata" {
				return filepath.SkipDir
			}
			// nested modules (internal/testify) are resolved from the module cache
			if _, e := os.Stat(filepath.Join(p, "go.mod")); e == nil {
				return filepath.SkipDir
			}
			return os.MkdirAll(filepath.Join(dst, rel), 0755)
		}
		if !info.Mode().IsRegular() {
			return nil
		}
		if strings.HasSuffix(base, "_test.go") {
			return nil
		}
		if !(strings.HasSuffix(base, ".go") || base == "go.mod" || base == "go.sum" || strings.HasSuffix(base, ".s")) {
			return nil
		}
		b, err := ioutil.ReadFile(p)
		if err != nil {
			return err
		}
		return ioutil.WriteFile(filepath.Join(dst, rel), b, 0644)
	})
	if err != nil {
		fatalf("copy: %v", err)
	}
}

// findPackages lists directories (relative to root) holding a non-main Go package
// of the module, root package first. cmd/ and fuzz/ are left alone.
func findPackages(root string) []string {
	var dirs []string
	filepath.Walk(root, func(p string, info os.FileInfo, err error) error {
		if err != nil || !info.IsDir() {
			return nil
		}
		rel, _ := filepath.Rel(root, p)
		if rel == rtImportName || rel == "fuzz" || strings.HasPrefix(rel, "fuzz"+string(filepath.Separator)) {
			return filepath.SkipDir
		}
		ms, _ := filepath.Glob(filepath.Join(p, "*.go"))
		if len(ms) == 0 {
			return nil
		}
		fset := token.NewFileSet()
		f, err := parser.ParseFile(fset, ms[0], nil, parser.PackageClauseOnly)
		if err != nil {
			fatalf("parse %s: %v", ms[0], err)
		}
		if f.Name.Name == "main" {
			return nil
		}
		dirs = append(dirs, rel)
		return nil
	})
	sort.Slice(dirs, func(i, j int) bool {
		if dirs[i] == "." {
			return true
		}
		if dirs[j] == "." {
			return false
		}
		return dirs[i] < dirs[j]
	})
	return dirs
}

func goFiles(dir string) []string {
	ms, _ := filepath.Glob(filepath.Join(dir, "*.go"))
	var out []string
	for _, m := range ms {
		b := filepath.Base(m)
		if strings.HasSuffix(b, "_test.go") || strings.HasPrefix(b, "zz_verif_") {
			continue
		}
		// honour "+build ignore" style files: skip files whose package clause differs later
		out = append(out, m)
	}
	sort.Strings(out)
	return out
}

type initRec struct {
	names []string
}

func instrumentPackage(root, rel string) {
	dir := filepath.Join(root, rel)
	files := goFiles(dir)
	pkgLabel := rel
	if rel == "." {
		pkgLabel = modPath
	} else {
		pkgLabel = modPath + "/" + filepath.ToSlash(rel)
	}
	report.Packages = append(report.Packages, pkgLabel)

	// ---------- pass 1: typed rewrites ----------
	fset := token.NewFileSet()
	var asts []*ast.File
	srcs := map[string][]byte{}
	var pkgName string
	var kept []string
	for _, fn := range files {
		b, err := ioutil.ReadFile(fn)
		if err != nil {
			fatalf("%v", err)
		}
		f, err := parser.ParseFile(fset, fn, b, parser.ParseComments)
		if err != nil {
			fatalf("parse: %v", err)
		}
		if hasIgnoreTag(f) {
			continue
		}
		if pkgName == "" {
			pkgName = f.Name.Name
		}
		if f.Name.Name != pkgName {
			continue
		}
		srcs[fn] = b
		asts = append(asts, f)
		kept = append(kept, fn)
	}
	files = kept
	info := &types.Info{
		Types:      map[ast.Expr]types.TypeAndValue{},
		Selections: map[*ast.SelectorExpr]*types.Selection{},
		Uses:       map[*ast.Ident]types.Object{},
		Defs:       map[*ast.Ident]types.Object{},
	}
	conf := types.Config{
		Importer: importer.ForCompiler(fset, "source", nil),
		Error: func(err error) {
			report.TypeErrors = append(report.TypeErrors, err.Error())
		},
	}
	oldwd, _ := os.Getwd()
	os.Chdir(dir)
	_, _ = conf.Check(pkgLabel, fset, asts, info)
	os.Chdir(oldwd)
	if rel == "." && len(report.TypeErrors) > 0 {
		fatalf("root package does not type-check: %s", strings.Join(report.TypeErrors, "; "))
	}
	var inits []initRec
	for _, in := range info.InitOrder {
		var r initRec
		for _, v := range in.Lhs {
			r.names = append(r.names, v.Name())
		}
		inits = append(inits, r)
	}

	pass1 := map[string][]byte{}
	for i, fn := range files {
		ed := &editor{src: srcs[fn]}
		typedRewrites(fset, asts[i], info, ed, fn, root)
		pass1[fn] = ed.render()
	}

	// ---------- pass 2: yields ----------
	fset2 := token.NewFileSet()
	final := map[string][]byte{}
	var asts2 []*ast.File
	for _, fn := range files {
		f, err := parser.ParseFile(fset2, fn, pass1[fn], parser.ParseComments)
		if err != nil {
			fatalf("pass1 output of %s does not parse: %v", fn, err)
		}
		ed := &editor{src: pass1[fn]}
		used := insertYields(fset2, f, ed, fn, root, pkgLabel)
		if used || bytes.Contains(pass1[fn], []byte(rtImportName+".")) {
			// same line as the package clause: line numbers stay identical to /repo
			off := fset2.Position(f.Name.End()).Offset
			ed.insert(off, "; import "+rtImportName+" \""+modPath+"/"+rtImportName+"\"")
		}
		final[fn] = ed.render()
		asts2 = append(asts2, f)
	}
	for fn, b := range final {
		if err := ioutil.WriteFile(fn, b, 0644); err != nil {
			fatalf("%v", err)
		}
	}

	// ---------- pass 3: reset of package-level state ----------
	writeReset(dir, pkgName, files, final, inits)
}

func hasIgnoreTag(f *ast.File) bool {
	for _, cg := range f.Comments {
		if cg.Pos() > f.Package {
			break
		}
		for _, c := range cg.List {
			t := c.Text
			if strings.HasPrefix(t, "//go:build ") || strings.HasPrefix(t, "// +build ") {
				if strings.Contains(t, "ignore") || strings.Contains(t, "gofuzz") {
					return true
				}
			}
		}
	}
	return false
}

func relFile(root, fn string) string {
	r, err := filepath.Rel(root, fn)
	if err != nil {
		return fn
	}
	return filepath.ToSlash(r)
}

func typedRewrites(fset *token.FileSet, f *ast.File, info *types.Info, ed *editor, fn, root string) {
	off := func(p token.Pos) int { return fset.Position(p).Offset }
	text := func(n ast.Node) string { return string(ed.src[off(n.Pos()):off(n.End())]) }
	qual := func(p *types.Package) string {
		// names as written in this file: find import alias
		for _, imp := range f.Imports {
			path := strings.Trim(imp.Path.Value, `"`)
			if path == p.Path() {
				if imp.Name != nil {
					return imp.Name.Name
				}
				return p.Name()
			}
		}
		if info.Defs[f.Name] == nil && p.Name() == f.Name.Name {
			return ""
		}
		return p.Name()
	}
	where := func(n ast.Node) string {
		p := fset.Position(n.Pos())
		return fmt.Sprintf("%s:%d", relFile(root, fn), p.Line)
	}
	keepImport := map[string]string{} // import name -> a symbol of it, kept alive after its calls were rerouted
	skipRecv := map[*ast.UnaryExpr]bool{}
	skipSend := map[*ast.SendStmt]bool{}
	var selects []*ast.SelectStmt
	// recvElem: element type of the channel being received from, as written in this file.
	recvElem := func(u *ast.UnaryExpr) string {
		tv, ok := info.Types[u.X]
		if !ok || tv.Type == nil {
			return ""
		}
		ch, ok := tv.Type.Underlying().(*types.Chan)
		if !ok {
			return ""
		}
		return types.TypeString(ch.Elem(), qual)
	}
	// syncKey: pointer to the sync object a method is called on.
	syncKey := func(sel *ast.SelectorExpr) string {
		tv, ok := info.Types[sel.X]
		if ok && tv.Type != nil {
			if _, isPtr := tv.Type.Underlying().(*types.Pointer); isPtr {
				return text(sel.X)
			}
		}
		return "&" + text(sel.X)
	}
	recvTypeName := func(sel *ast.SelectorExpr) string {
		if s := info.Selections[sel]; s != nil {
			if fn, ok := s.Obj().(*types.Func); ok {
				if sig, ok := fn.Type().(*types.Signature); ok && sig.Recv() != nil {
					return sig.Recv().Type().String()
				}
			}
		}
		return ""
	}
	// hasTry: the receiver's static type offers TryLock (sync.Mutex, sync.RWMutex, structs
	// embedding them) and the receiver expression is free of calls (it is evaluated twice).
	hasTry := func(sel *ast.SelectorExpr) bool {
		tv, ok := info.Types[sel.X]
		if !ok || tv.Type == nil {
			return false
		}
		pure := true
		ast.Inspect(sel.X, func(n ast.Node) bool {
			if _, ok := n.(*ast.CallExpr); ok {
				pure = false
			}
			return true
		})
		if !pure {
			return false
		}
		obj, _, _ := types.LookupFieldOrMethod(tv.Type, true, nil, "TryLock")
		_, isFunc := obj.(*types.Func)
		return isFunc
	}
	syncMethod := func(call *ast.CallExpr) (string, *ast.SelectorExpr) {
		sel, ok := call.Fun.(*ast.SelectorExpr)
		if !ok {
			return "", nil
		}
		s := info.Selections[sel]
		if s == nil {
			return "", nil
		}
		obj := s.Obj()
		if obj == nil || obj.Pkg() == nil || obj.Pkg().Path() != "sync" {
			return "", nil
		}
		return obj.Name(), sel
	}
	var visit func(root ast.Node)
	visit = func(root ast.Node) {
		ast.Inspect(root, func(n ast.Node) bool {
			switch x := n.(type) {
			case *ast.RangeStmt:
				tv, ok := info.Types[x.X]
				if !ok || tv.Type == nil {
					return true
				}
				if ch, isChan := tv.Type.Underlying().(*types.Chan); isChan {
					// for v := range ch  ->  for { simv, simok := Recv2(ch); if !simok { break }; v := simv.(T) ...
					report.SyncSites = append(report.SyncSites, where(x)+" range over channel")
					t := types.TypeString(ch.Elem(), qual)
					hdr := "for { simv, simok := " + rtImportName + ".Recv2(" + text(x.X) + "); if !simok { break }; _ = simv;"
					if x.Key != nil {
						kn := text(x.Key)
						if kn != "_" {
							if x.Tok == token.ASSIGN {
								hdr += " " + kn + ", _ = simv.(" + t + ");"
							} else {
								hdr += " " + kn + ", _ := simv.(" + t + "); _ = " + kn + ";"
							}
						}
					}
					ed.replace(off(x.For), off(x.Body.Lbrace)+1, hdr)
					visit(x.Body)
					return false
				}
				mt, ok := tv.Type.Underlying().(*types.Map)
				if !ok {
					return true
				}
				report.MapRanges = append(report.MapRanges, where(x))
				keyName, valName := "_", "_"
				if id, ok := x.Key.(*ast.Ident); ok && x.Key != nil {
					keyName = id.Name
				} else if x.Key != nil {
					keyName = text(x.Key)
				}
				if x.Value != nil {
					valName = text(x.Value)
				}
				assign := ":="
				if x.Tok == token.ASSIGN {
					assign = "="
				}
				isSI := false
				if b, ok := mt.Key().Underlying().(*types.Basic); ok && b.Kind() == types.String && types.Identical(mt.Key(), types.Typ[types.String]) {
					if it, ok := mt.Elem().(*types.Interface); ok && it.Empty() {
						isSI = true
					}
				}
				var hdr, prologue string
				xText := text(x.X)
				if isSI {
					hdr = "for _, simkv := range " + rtImportName + ".MapPairsSI(" + xText + ") {"
					if keyName != "_" || valName != "_" {
						if assign == ":=" {
							prologue = fmt.Sprintf(" %s, %s := simkv.K, simkv.V;", keyName, valName)
							if keyName != "_" {
								prologue += " _ = " + keyName + ";"
							}
							if valName != "_" {
								prologue += " _ = " + valName + ";"
							}
						} else {
							prologue = fmt.Sprintf(" %s, %s = simkv.K, simkv.V;", keyName, valName)
						}
					} else {
						prologue = " _ = simkv;"
					}
				} else {
					kt := types.TypeString(mt.Key(), qual)
					vt := types.TypeString(mt.Elem(), qual)
					hdr = "for _, simkv := range " + rtImportName + ".MapPairs(" + xText + ") {"
					prologue = " _ = simkv;"
					if keyName != "_" {
						if assign == ":=" {
							prologue += fmt.Sprintf(" %s, _ := simkv.K.(%s); _ = %s;", keyName, kt, keyName)
						} else {
							prologue += fmt.Sprintf(" %s, _ = simkv.K.(%s);", keyName, kt)
						}
					}
					if valName != "_" {
						if assign == ":=" {
							prologue += fmt.Sprintf(" %s, _ := simkv.V.(%s); _ = %s;", valName, vt, valName)
						} else {
							prologue += fmt.Sprintf(" %s, _ = simkv.V.(%s);", valName, vt)
						}
					}
				}
				ed.replace(off(x.For), off(x.Body.Lbrace)+1, hdr+prologue)
				// X was re-emitted verbatim: only the body is visited further
				visit(x.Body)
				return false
			case *ast.BasicLit:
				if x.Kind == token.CHAR && strings.Contains(strings.ToLower(filepath.Base(fn)), "lex") {
					if c, err := strconv.Unquote(x.Value); err == nil {
						seen := false
						for _, o := range report.LexChars {
							if o == c {
								seen = true
							}
						}
						if !seen {
							report.LexChars = append(report.LexChars, c)
						}
					}
				}
			case *ast.CompositeLit:
				// the built-in function table: a map literal with string keys whose values are
				// struct literals having an "arguments" (or similar) list of type lists
				if tv, ok := info.Types[x]; ok && tv.Type != nil {
					if mt, ok := tv.Type.Underlying().(*types.Map); ok {
						if b, ok := mt.Key().Underlying().(*types.Basic); ok && b.Kind() == types.String && strings.Contains(strings.ToLower(mt.Elem().String()), "function") {
							for _, el := range x.Elts {
								kv, ok := el.(*ast.KeyValueExpr)
								if !ok {
									continue
								}
								kl, ok := kv.Key.(*ast.BasicLit)
								if !ok || kl.Kind != token.STRING {
									continue
								}
								fi := FuncInfo{Name: strings.Trim(kl.Value, "\"`")}
								ast.Inspect(kv.Value, func(m ast.Node) bool {
									if kv2, ok := m.(*ast.KeyValueExpr); ok {
										if id, ok := kv2.Key.(*ast.Ident); ok {
											switch id.Name {
											case "variadic":
												if v, ok := kv2.Value.(*ast.Ident); ok && v.Name == "true" {
													fi.Variadic = true
												}
											case "types":
												var ts []string
												ast.Inspect(kv2.Value, func(t ast.Node) bool {
													if tid, ok := t.(*ast.Ident); ok && strings.HasPrefix(tid.Name, "jp") && tid.Name != "jpType" {
														ts = append(ts, tid.Name)
													}
													return true
												})
												fi.Args = append(fi.Args, ts)
											}
										}
									}
									return true
								})
								report.Functions = append(report.Functions, fi)
							}
						}
					}
				}
			case *ast.CallExpr:
				if se, ok := x.Fun.(*ast.SelectorExpr); ok {
					if fn, ok := info.Uses[se.Sel].(*types.Func); ok && fn.Pkg() != nil {
						if sig, _ := fn.Type().(*types.Signature); sig != nil && sig.Recv() == nil {
							switch fn.Pkg().Path() {
							case "time":
								switch fn.Name() {
								case "Now", "Since", "Until", "Sleep", "After":
									report.SyncSites = append(report.SyncSites, where(x)+" time."+fn.Name())
									ed.replace(off(se.Pos()), off(se.Sel.Pos()), rtImportName+".")
									keepImport[text(se.X)] = "time.Now"
								case "NewTimer", "NewTicker", "AfterFunc", "Tick":
									pkgRealTime = true
									report.ChanOps = append(report.ChanOps, where(x)+" time."+fn.Name()+" (real time: not simulated)")
								}
							case "math/rand":
								switch fn.Name() {
								case "Intn", "Int", "Int31", "Int31n", "Int63", "Int63n", "Uint32", "Uint64", "Float32", "Float64", "NormFloat64", "ExpFloat64", "Perm", "Shuffle", "Read", "Seed":
									report.SyncSites = append(report.SyncSites, where(x)+" rand."+fn.Name())
									ed.replace(off(se.Pos()), off(se.Sel.Pos()), rtImportName+".Rand().")
									keepImport[text(se.X)] = "rand.Intn"
								}
							case "context":
								switch fn.Name() {
								case "WithTimeout", "WithDeadline":
									pkgRealTime = true
									report.ChanOps = append(report.ChanOps, where(x)+" context."+fn.Name()+" (real time: not simulated)")
								}
							case "crypto/rand", "math/rand/v2":
								report.ChanOps = append(report.ChanOps, where(x)+" "+fn.Pkg().Path()+"."+fn.Name()+" (randomness outside the seam)")
							}
						}
					}
				}
				name, sel := syncMethod(x)
				switch name {
				case "Lock", "RLock":
					report.SyncSites = append(report.SyncSites, where(x)+" "+name)
					if hasTry(sel) {
						// preemptible critical section: acquisition becomes TryLock + forced
						// yield while the lock is held by a parked client, so lock-order
						// deadlocks and atomicity violations between two sections can show
						try := "TryLock"
						if name == "RLock" {
							try = "TryRLock"
						}
						recv := text(sel.X)
						if strings.Contains(recvTypeName(sel), "RWMutex") {
							// Go's RWMutex prefers writers: once a Lock is waiting, new RLocks wait
							// too (so a recursive read lock deadlocks against a pending writer)
							fn := "WLock"
							if name == "RLock" {
								fn = "RLock"
							}
							ed.replace(off(x.Pos()), off(x.End()), rtImportName+"."+fn+"("+syncKey(sel)+", "+recv+"."+try+", "+recv+"."+name+")")
						} else {
							ed.replace(off(x.Pos()), off(x.End()), rtImportName+".Lock("+recv+"."+try+", "+recv+"."+name+")")
						}
					} else {
						ed.insert(off(x.Pos()), rtImportName+".CSEnter(")
						ed.replace(off(sel.End()), off(x.End()), ")")
					}
				case "Unlock", "RUnlock":
					if hasTry(sel) {
						break // plain unlock: the section was entered through zzverifrt.Lock
					}
					report.SyncSites = append(report.SyncSites, where(x)+" "+name)
					ed.insert(off(x.Pos()), rtImportName+".CSExit(")
					ed.replace(off(sel.End()), off(x.End()), ")")
				case "TryLock", "TryRLock":
					report.SyncSites = append(report.SyncSites, where(x)+" "+name)
					ed.insert(off(x.Pos()), rtImportName+".CSTry(")
					ed.replace(off(sel.End()), off(x.End()), ")")
				case "Do":
					if len(x.Args) == 1 {
						report.SyncSites = append(report.SyncSites, where(x)+" Do")
						ed.insert(off(x.Pos()), rtImportName+".CSDo(")
						ed.replace(off(sel.End()), off(x.Lparen)+1, ", ")
					}
				case "Wait":
					rt := recvTypeName(sel)
					switch {
					case strings.Contains(rt, "WaitGroup"):
						report.SyncSites = append(report.SyncSites, where(x)+" WaitGroup.Wait")
						ed.replace(off(x.Pos()), off(x.End()), rtImportName+".WGWait("+syncKey(sel)+")")
					case strings.Contains(rt, "Cond"):
						report.SyncSites = append(report.SyncSites, where(x)+" Cond.Wait")
						ed.replace(off(x.Pos()), off(x.End()), rtImportName+".CondWait("+syncKey(sel)+")")
					default:
						report.ChanOps = append(report.ChanOps, where(x)+" sync.Wait")
					}
				case "Signal", "Broadcast":
					if strings.Contains(recvTypeName(sel), "Cond") && len(x.Args) == 0 {
						report.SyncSites = append(report.SyncSites, where(x)+" Cond."+name)
						ed.replace(off(x.Pos()), off(x.End()), rtImportName+".Cond"+name+"("+syncKey(sel)+")")
					}
				case "Get":
					if strings.Contains(recvTypeName(sel), "sync.Pool") && len(x.Args) == 0 {
						report.SyncSites = append(report.SyncSites, where(x)+" Pool.Get")
						ed.replace(off(x.Pos()), off(x.End()), rtImportName+".PoolGet("+syncKey(sel)+")")
					}
				case "Put":
					if strings.Contains(recvTypeName(sel), "sync.Pool") && len(x.Args) == 1 {
						report.SyncSites = append(report.SyncSites, where(x)+" Pool.Put")
						ed.replace(off(x.Pos()), off(x.Lparen)+1, rtImportName+".PoolPut("+syncKey(sel)+", ")
					}
				case "Add":
					if strings.Contains(recvTypeName(sel), "WaitGroup") && len(x.Args) == 1 {
						report.SyncSites = append(report.SyncSites, where(x)+" WaitGroup.Add")
						ed.replace(off(x.Pos()), off(x.Lparen)+1, rtImportName+".WGAdd("+syncKey(sel)+", ")
					}
				case "Done":
					if strings.Contains(recvTypeName(sel), "WaitGroup") {
						report.SyncSites = append(report.SyncSites, where(x)+" WaitGroup.Done")
						ed.replace(off(x.Pos()), off(x.End()), rtImportName+".WGAdd("+syncKey(sel)+", -1)")
					}
				case "Range":
					// sync.Map.Range visits in Go's randomised map order: behind the map-order seam
					if strings.Contains(recvTypeName(sel), "sync.Map") && len(x.Args) == 1 {
						report.MapRanges = append(report.MapRanges, where(x)+" sync.Map.Range")
						ed.replace(off(x.Pos()), off(x.Lparen)+1, rtImportName+".SyncMapRange("+syncKey(sel)+", ")
					} else {
						report.ReflectMap = append(report.ReflectMap, where(x)+" sync.Map.Range")
					}
				}
				if sel, ok := x.Fun.(*ast.SelectorExpr); ok {
					if s := info.Selections[sel]; s != nil && s.Obj() != nil && s.Obj().Pkg() != nil && s.Obj().Pkg().Path() == "reflect" && len(x.Args) == 0 {
						if nm := s.Obj().Name(); (nm == "MapRange" || nm == "MapKeys") && strings.HasSuffix(recvTypeName(sel), "reflect.Value") {
							// reflect's map iteration is randomised as well
							report.MapRanges = append(report.MapRanges, where(x)+" reflect."+nm)
							ed.replace(off(x.Pos()), off(x.End()), rtImportName+".Reflect"+nm+"("+text(sel.X)+")")
						}
					}
				}
			case *ast.GoStmt:
				call := x.Call
				builtin := false
				if id, ok := call.Fun.(*ast.Ident); ok {
					if _, isB := info.Uses[id].(*types.Builtin); isB {
						builtin = true
					}
				}
				nilArg := false
				for _, a := range call.Args {
					if tv, ok := info.Types[a]; ok && tv.IsNil() {
						nilArg = true
					}
				}
				if builtin || nilArg {
					report.GoStmts = append(report.GoStmts, where(x)+" (not simulated)")
					break
				}
				report.SyncSites = append(report.SyncSites, where(x)+" go")
				names := []string{"simf"}
				for i := range call.Args {
					names = append(names, fmt.Sprintf("sima%d", i))
				}
				callArgs := strings.Join(names[1:], ", ")
				if call.Ellipsis.IsValid() {
					callArgs += "..."
				}
				ed.replace(off(x.Go), off(call.Fun.Pos()), rtImportName+".Go(func() func() { "+strings.Join(names, ", ")+" := ")
				suffix := "; return func() { simf(" + callArgs + ") } }())"
				if len(call.Args) == 0 {
					ed.replace(off(call.Lparen), off(call.Rparen)+1, suffix)
				} else {
					ed.replace(off(call.Lparen), off(call.Lparen)+1, ", ")
					endArgs := off(call.Rparen)
					if call.Ellipsis.IsValid() {
						endArgs = off(call.Ellipsis)
					}
					ed.replace(endArgs, off(call.Rparen)+1, suffix)
				}
			case *ast.SendStmt:
				if skipSend[x] {
					break
				}
				report.SyncSites = append(report.SyncSites, where(x)+" send")
				ed.insert(off(x.Pos()), rtImportName+".Send(")
				ed.replace(off(x.Arrow), off(x.Arrow)+2, ",")
				ed.insert(off(x.End()), ")")
			case *ast.ExprStmt:
				if u, ok := x.X.(*ast.UnaryExpr); ok && u.Op == token.ARROW && !skipRecv[u] {
					skipRecv[u] = true
					report.SyncSites = append(report.SyncSites, where(x)+" recv-wait")
					ed.replace(off(u.OpPos), off(u.OpPos)+2, rtImportName+".RecvWait(")
					ed.insert(off(u.End()), ")")
				}
			case *ast.AssignStmt:
				if len(x.Lhs) == 2 && len(x.Rhs) == 1 {
					if u, ok := x.Rhs[0].(*ast.UnaryExpr); ok && u.Op == token.ARROW && !skipRecv[u] {
						if t := recvElem(u); t != "" {
							skipRecv[u] = true
							report.SyncSites = append(report.SyncSites, where(x)+" recv2")
							ed.replace(off(u.OpPos), off(u.OpPos)+2, "func() ("+t+", bool) { simv, simok := "+rtImportName+".Recv2(")
							ed.insert(off(u.End()), "); simt, _ := simv.("+t+"); return simt, simok }()")
						}
					}
				}
			case *ast.UnaryExpr:
				if x.Op == token.ARROW && !skipRecv[x] {
					if t := recvElem(x); t != "" {
						report.SyncSites = append(report.SyncSites, where(x)+" recv")
						ed.replace(off(x.OpPos), off(x.OpPos)+2, "func() "+t+" { simv, _ := "+rtImportName+".Recv2(")
						ed.insert(off(x.End()), "); simt, _ := simv.("+t+"); return simt }()")
					} else {
						report.ChanOps = append(report.ChanOps, where(x)+" recv")
					}
				}
			case *ast.SelectStmt:
				selects = append(selects, x)
				// receives that are the communication of a select case are handled with the select
				for _, cl := range x.Body.List {
					if cc, ok := cl.(*ast.CommClause); ok && cc.Comm != nil {
						ast.Inspect(cc.Comm, func(m ast.Node) bool {
							if u, ok := m.(*ast.UnaryExpr); ok && u.Op == token.ARROW {
								skipRecv[u] = true
							}
							if sd, ok := m.(*ast.SendStmt); ok {
								skipSend[sd] = true
							}
							return true
						})
					}
				}
			}
			return true
		})
	}
	visit(f)
	// select statements, after everything inside them has been rewritten: the channel
	// expressions and send values move into one zzverifrt.Select call, the clauses become
	// the cases of a switch on the chosen index
	unparen := func(e ast.Expr) ast.Expr {
		for {
			p, ok := e.(*ast.ParenExpr)
			if !ok {
				return e
			}
			e = p.X
		}
	}
	for _, x := range selects {
		type clause struct {
			cc     *ast.CommClause
			send   bool
			chanE  ast.Expr
			valE   ast.Expr
			lhs    []ast.Expr
			define bool
			elem   string
		}
		var cls []clause
		ok := true
		hasDefault := false
		for _, st := range x.Body.List {
			cc, isCC := st.(*ast.CommClause)
			if !isCC {
				ok = false
				break
			}
			c := clause{cc: cc}
			switch cm := cc.Comm.(type) {
			case nil:
				hasDefault = true
			case *ast.SendStmt:
				c.send, c.chanE, c.valE = true, cm.Chan, cm.Value
			case *ast.ExprStmt:
				u, isU := unparen(cm.X).(*ast.UnaryExpr)
				if !isU || u.Op != token.ARROW {
					ok = false
					break
				}
				c.chanE = u.X
			case *ast.AssignStmt:
				if len(cm.Rhs) != 1 || len(cm.Lhs) > 2 {
					ok = false
					break
				}
				u, isU := unparen(cm.Rhs[0]).(*ast.UnaryExpr)
				if !isU || u.Op != token.ARROW {
					ok = false
					break
				}
				c.chanE, c.lhs, c.define, c.elem = u.X, cm.Lhs, cm.Tok == token.DEFINE, recvElem(u)
				if c.elem == "" {
					ok = false
				}
			default:
				ok = false
			}
			cls = append(cls, c)
		}
		if !ok {
			pkgHasSelect = true
			report.ChanOps = append(report.ChanOps, where(x)+" select (not rewritten)")
			continue
		}
		report.SyncSites = append(report.SyncSites, where(x)+" select")
		hdr := "switch sims := " + rtImportName + ".Select(" + fmt.Sprint(hasDefault)
		k := 0
		for _, c := range cls {
			if c.cc.Comm == nil {
				ed.replace(off(c.cc.Pos()), off(c.cc.Colon)+1, "default:")
				continue
			}
			var lhs []string
			for _, l := range c.lhs {
				lhs = append(lhs, ed.extract(off(l.Pos()), off(l.End())))
			}
			ch := ed.extract(off(c.chanE.Pos()), off(c.chanE.End()))
			if c.send {
				hdr += ", " + rtImportName + ".SelSend(" + ch + ", " + ed.extract(off(c.valE.Pos()), off(c.valE.End())) + ")"
			} else {
				hdr += ", " + rtImportName + ".SelRecv(" + ch + ")"
			}
			pro := fmt.Sprintf("case %d:", k)
			k++
			if len(lhs) > 0 {
				asg := " = "
				if c.define {
					asg = " := "
				}
				if !(c.define && lhs[0] == "_") {
					pro += " " + lhs[0] + ", _" + asg + "sims.V.(" + c.elem + ");"
					if c.define {
						pro += " _ = " + lhs[0] + ";"
					}
				}
				if len(lhs) == 2 && !(c.define && lhs[1] == "_") {
					pro += " " + lhs[1] + asg + "sims.OK;"
					if c.define {
						pro += " _ = " + lhs[1] + ";"
					}
				}
			}
			// (drop whatever edits are left inside the clause header, e.g. on parentheses)
			ed.extract(off(c.cc.Pos()), off(c.cc.Colon)+1)
			ed.replace(off(c.cc.Pos()), off(c.cc.Colon)+1, pro)
		}
		hdr += "); sims.I {"
		ed.replace(off(x.Pos()), off(x.Body.Lbrace)+1, hdr)
	}
	// the rewritten file may no longer use an import it declares: keep it referenced
	for name, sym := range keepImport {
		ed.insert(len(ed.src), "\nvar _ = "+name+sym[strings.Index(sym, "."):]+"\n")
	}
}

func funcName(fd *ast.FuncDecl) string {
	if fd.Recv != nil && len(fd.Recv.List) > 0 {
		t := fd.Recv.List[0].Type
		star := ""
		if s, ok := t.(*ast.StarExpr); ok {
			star = "*"
			t = s.X
		}
		if id, ok := t.(*ast.Ident); ok {
			if star != "" {
				return "(*" + id.Name + ")." + fd.Name.Name
			}
			return id.Name + "." + fd.Name.Name
		}
	}
	return fd.Name.Name
}

func isWriteish(s ast.Stmt) bool {
	nonIdent := func(e ast.Expr) bool {
		switch e.(type) {
		case *ast.IndexExpr, *ast.SelectorExpr, *ast.StarExpr:
			return true
		}
		return false
	}
	hasAppendCopy := func(e ast.Expr) bool {
		found := false
		ast.Inspect(e, func(n ast.Node) bool {
			if _, ok := n.(*ast.FuncLit); ok {
				return false
			}
			if c, ok := n.(*ast.CallExpr); ok {
				if id, ok := c.Fun.(*ast.Ident); ok && (id.Name == "append" || id.Name == "copy" || id.Name == "delete") {
					found = true
				}
				if se, ok := c.Fun.(*ast.SelectorExpr); ok {
					switch se.Sel.Name {
					case "Swap", "Store", "Put", "Reset", "WriteString", "Write", "Stable", "Sort", "Strings", "Float64s", "Slice", "SliceStable":
						found = true
					}
				}
			}
			return true
		})
		return found
	}
	switch x := s.(type) {
	case *ast.AssignStmt:
		for _, l := range x.Lhs {
			if nonIdent(l) {
				return true
			}
		}
		for _, r := range x.Rhs {
			if hasAppendCopy(r) {
				return true
			}
		}
	case *ast.IncDecStmt:
		return nonIdent(x.X)
	case *ast.ExprStmt:
		return hasAppendCopy(x.X)
	}
	return false
}

func insertYields(fset *token.FileSet, f *ast.File, ed *editor, fn, root, pkg string) bool {
	used := false
	off := func(p token.Pos) int { return fset.Position(p).Offset }
	var stack []string
	skip := map[*ast.BlockStmt]bool{}
	addList := func(list []ast.Stmt) {
		for _, s := range list {
			switch s.(type) {
			case *ast.CaseClause, *ast.CommClause:
				continue
			}
			id := len(report.Sites)
			fname := "<pkg>"
			if len(stack) > 0 {
				fname = stack[len(stack)-1]
			}
			report.Sites = append(report.Sites, Site{
				ID: id, File: relFile(root, fn), Line: fset.Position(s.Pos()).Line,
				Func: fname, Write: isWriteish(s), Pkg: pkg,
			})
			ed.insert(off(s.Pos()), fmt.Sprintf("%s.Y(%d); ", rtImportName, id))
			used = true
		}
	}
	var walk func(n ast.Node)
	walk = func(n ast.Node) {
		ast.Inspect(n, func(m ast.Node) bool {
			switch x := m.(type) {
			case *ast.FuncDecl:
				if x.Body == nil {
					return false
				}
				stack = append(stack, funcName(x))
				walk(x.Body)
				stack = stack[:len(stack)-1]
				return false
			case *ast.FuncLit:
				parent := "<pkg>"
				if len(stack) > 0 {
					parent = stack[len(stack)-1]
				}
				stack = append(stack, parent+".func")
				walk(x.Body)
				stack = stack[:len(stack)-1]
				return false
			case *ast.SwitchStmt:
				skip[x.Body] = true
			case *ast.TypeSwitchStmt:
				skip[x.Body] = true
			case *ast.SelectStmt:
				skip[x.Body] = true
			case *ast.BlockStmt:
				if !skip[x] {
					addList(x.List)
				}
			case *ast.CaseClause:
				addList(x.Body)
			case *ast.CommClause:
				addList(x.Body)
			}
			return true
		})
	}
	for _, d := range f.Decls {
		walk(d)
	}
	return used
}

// writeReset generates zz_verif_reset.go: ResetGlobals re-assigns every package level
// variable from its initialiser text (in go/types' initialisation order), zeroes the
// ones without initialiser, and re-runs init functions.
var pkgHasSelect bool

// pkgRealTime: the library arms real timers (time.NewTimer/Ticker/AfterFunc, context
// deadlines). A client polling for such a timer is not deadlocked, real time just has
// not passed yet: the deadlock detector then waits in real time instead of concluding.
var pkgRealTime bool

func writeReset(dir, pkgName string, files []string, final map[string][]byte, inits []initRec) {
	fset := token.NewFileSet()
	type specInfo struct {
		spec *ast.ValueSpec
		src  []byte
	}
	byName := map[string]specInfo{}
	var order []string             // declaration order, for vars without initialiser
	imports := map[string]string{} // "alias path" lines needed by the generated file
	var initFuncs []string
	nInit := 0
	for _, fn := range files {
		src := final[fn]
		f, err := parser.ParseFile(fset, fn, src, 0)
		if err != nil {
			fatalf("final output of %s does not parse: %v", fn, err)
		}
		for _, imp := range f.Imports {
			line := imp.Path.Value
			if imp.Name != nil {
				if imp.Name.Name == "_" || imp.Name.Name == "." {
					continue
				}
				line = imp.Name.Name + " " + line
			}
			imports[line] = line
		}
		ed := &editor{src: src}
		changed := false
		for _, d := range f.Decls {
			switch x := d.(type) {
			case *ast.GenDecl:
				if x.Tok != token.VAR {
					continue
				}
				for _, s := range x.Specs {
					vs := s.(*ast.ValueSpec)
					for _, n := range vs.Names {
						if n.Name == "_" {
							continue
						}
						byName[n.Name] = specInfo{vs, src}
						order = append(order, n.Name)
					}
				}
			case *ast.FuncDecl:
				if x.Name.Name == "init" && x.Recv == nil {
					nm := fmt.Sprintf("zzVerifInit%d_%s", nInit, strings.TrimSuffix(filepath.Base(fn), ".go"))
					nm = strings.Map(func(r rune) rune {
						if r == '-' || r == '.' {
							return '_'
						}
						return r
					}, nm)
					nInit++
					o := fset.Position(x.Name.Pos()).Offset
					ed.replace(o, o+len("init"), nm)
					initFuncs = append(initFuncs, nm)
					changed = true
				}
			}
		}
		if changed {
			b := ed.render()
			final[fn] = b
			if err := ioutil.WriteFile(fn, b, 0644); err != nil {
				fatalf("%v", err)
			}
		}
	}
	txt := func(si specInfo, e ast.Node) string {
		return string(si.src[fset.Position(e.Pos()).Offset:fset.Position(e.End()).Offset])
	}
	var body []string
	done := map[string]bool{}
	for _, in := range inits {
		if len(in.names) == 0 {
			continue
		}
		first := ""
		for _, n := range in.names {
			if n != "_" {
				first = n
				break
			}
		}
		if first == "" {
			continue
		}
		si, ok := byName[first]
		if !ok {
			continue
		}
		vs := si.spec
		if len(vs.Values) == len(vs.Names) {
			for i, n := range vs.Names {
				for _, want := range in.names {
					if n.Name == want && n.Name != "_" && !done[n.Name] {
						body = append(body, fmt.Sprintf("\t%s = %s", n.Name, txt(si, vs.Values[i])))
						done[n.Name] = true
					}
				}
			}
		} else if len(vs.Values) == 1 {
			var lhs []string
			for _, n := range vs.Names {
				lhs = append(lhs, n.Name)
				done[n.Name] = true
			}
			body = append(body, fmt.Sprintf("\t%s = %s", strings.Join(lhs, ", "), txt(si, vs.Values[0])))
		}
	}
	var zero []string
	for _, n := range order {
		if done[n] {
			continue
		}
		si := byName[n]
		if si.spec.Type != nil && len(si.spec.Values) == 0 {
			zero = append(zero, fmt.Sprintf("\t%s = *new(%s)", n, txt(si, si.spec.Type)))
			done[n] = true
		}
	}
	for n := range done {
		report.Globals = append(report.Globals, pkgName+"."+n)
	}
	sort.Strings(report.Globals)
	var b bytes.Buffer
	b.WriteString("//go:build verif\n\n// Code generated by /verif/instr. DO NOT EDIT.\n\npackage " + pkgName + "\n\nimport (\n")
	var ims []string
	for l := range imports {
		ims = append(ims, l)
	}
	sort.Strings(ims)
	hasRt := false
	for _, l := range ims {
		if strings.Contains(l, "/"+rtImportName+"\"") {
			hasRt = true
		}
		b.WriteString("\t" + l + "\n")
	}
	if !hasRt {
		b.WriteString("\t" + rtImportName + " \"" + modPath + "/" + rtImportName + "\"\n")
	}
	b.WriteString(")\n\n")
	// keep every import used
	b.WriteString("func init() {\n")
	for _, nm := range initFuncs {
		b.WriteString("\t" + nm + "()\n")
	}
	if pkgHasSelect {
		b.WriteString("\t" + rtImportName + ".HasSelect = true\n")
	}
	if pkgRealTime {
		b.WriteString("\t" + rtImportName + ".RealTimers = true\n")
	}
	b.WriteString("\t" + rtImportName + ".RegisterReset(zzVerifResetGlobals)\n}\n\n")
	b.WriteString("func zzVerifResetGlobals() {\n")
	for _, l := range zero {
		b.WriteString(l + "\n")
	}
	for _, l := range body {
		b.WriteString(l + "\n")
	}
	for _, nm := range initFuncs {
		b.WriteString("\t" + nm + "()\n")
	}
	b.WriteString("}\n")
	out := b.Bytes()
	// drop imports the generated file does not use (cheap textual test on the body)
	out = pruneImports(out)
	if err := ioutil.WriteFile(filepath.Join(dir, "zz_verif_reset.go"), out, 0644); err != nil {
		fatalf("%v", err)
	}
}

func pruneImports(src []byte) []byte {
	fset := token.NewFileSet()
	f, err := parser.ParseFile(fset, "zz_verif_reset.go", src, 0)
	if err != nil {
		fatalf("generated reset file does not parse: %v\n%s", err, src)
	}
	used := map[string]bool{}
	ast.Inspect(f, func(n ast.Node) bool {
		if se, ok := n.(*ast.SelectorExpr); ok {
			if id, ok := se.X.(*ast.Ident); ok {
				used[id.Name] = true
			}
		}
		return true
	})
	ed := &editor{src: src}
	for _, imp := range f.Imports {
		name := ""
		if imp.Name != nil {
			name = imp.Name.Name
		} else {
			p := strings.Trim(imp.Path.Value, `"`)
			name = p[strings.LastIndex(p, "/")+1:]
		}
		if !used[name] {
			a := fset.Position(imp.Pos()).Offset
			e := fset.Position(imp.End()).Offset
			ed.replace(a, e, "")
		}
	}
	return ed.render()
}

func writeRuntime(root string) {
	dir := filepath.Join(root, rtImportName)
	os.MkdirAll(dir, 0755)
	if err := ioutil.WriteFile(filepath.Join(dir, "rt.go"), []byte(runtimeSrc), 0644); err != nil {
		fatalf("%v", err)
	}
	raceOn := "//go:build verif && race\n\npackage zzverifrt\n\nimport (\n\t\"runtime\"\n\t\"unsafe\"\n)\n\nfunc raceAcquire(p unsafe.Pointer)      { runtime.RaceAcquire(p) }\nfunc raceReleaseMerge(p unsafe.Pointer) { runtime.RaceReleaseMerge(p) }\n"
	raceOff := "//go:build verif && !race\n\npackage zzverifrt\n\nimport \"unsafe\"\n\nfunc raceAcquire(p unsafe.Pointer)      {}\nfunc raceReleaseMerge(p unsafe.Pointer) {}\n"
	ioutil.WriteFile(filepath.Join(dir, "race_on.go"), []byte(raceOn), 0644)
	ioutil.WriteFile(filepath.Join(dir, "race_off.go"), []byte(raceOff), 0644)
}

const runtimeSrc = `//go:build verif

// Code generated by /verif/instr. DO NOT EDIT.

// Package zzverifrt is the seam between the instrumented copy of the library and the
// simulator. With no hook installed every function is the identity, so the
// instrumented copy behaves exactly like the original.
package zzverifrt

import (
	"fmt"
	"math/rand"
	"reflect"
	"sort"
	"sync"
	"sync/atomic"
	"time"
	"unsafe"
)

// Hook is called before every statement of the instrumented packages.
var Hook func(site int)

// MapOrder permutes, in place, the lexicographically sorted keys of a map about to be
// iterated. nil means: keep them sorted.
var MapOrder func(keys []string)

// NoPreempt > 0 while the running client is inside a critical section (sync.Mutex
// held, sync.Once running): the scheduler must not switch clients.
var NoPreempt int

var resets []func()

//go:norace
func Y(site int) {
	if h := Hook; h != nil {
		h(site)
	}
}

//go:norace
func csInc() { NoPreempt++ }

//go:norace
func csDec() {
	if NoPreempt > 0 {
		NoPreempt--
	}
}

// Blocked is called when a lock is held by another (parked) client: the simulator must
// run somebody else.
var Blocked func()

// Lock acquires a mutex cooperatively: under simulation it never blocks the thread.
func Lock(try func() bool, lock func()) {
	if Hook == nil {
		lock()
		return
	}
	for !try() {
		if b := Blocked; b != nil {
			b()
		}
	}
}

type rwEnt struct {
	p       uintptr
	pending bool
}

var rwTab [64]rwEnt

//go:norace
func rwPending(p uintptr) bool {
	for i := range rwTab {
		if rwTab[i].pending && rwTab[i].p == p {
			return true
		}
	}
	return false
}

//go:norace
func rwSet(p uintptr, v bool) bool {
	for i := range rwTab {
		if rwTab[i].pending && rwTab[i].p == p {
			rwTab[i].pending = v
			return true
		}
	}
	if !v {
		return true
	}
	for i := range rwTab {
		if !rwTab[i].pending {
			rwTab[i] = rwEnt{p, true}
			return true
		}
	}
	return false
}

//go:norace
func rwReset() { rwTab = [64]rwEnt{} }

// WLock replaces rw.Lock() on a sync.RWMutex. Like the real one it announces itself:
// while a writer is waiting, RLock attempts by others wait too.
func WLock(key interface{}, try func() bool, lock func()) {
	if Hook == nil {
		lock()
		return
	}
	if try() {
		return
	}
	p := reflect.ValueOf(key).Pointer()
	mine := false
	defer func() {
		if mine {
			rwSet(p, false)
		}
	}()
	for {
		if !mine && !rwPending(p) {
			mine = rwSet(p, true)
		}
		if b := Blocked; b != nil {
			b()
		}
		if try() {
			return
		}
	}
}

// RLock replaces rw.RLock() on a sync.RWMutex: it waits while a writer holds the lock
// or is waiting for it.
func RLock(key interface{}, try func() bool, lock func()) {
	if Hook == nil {
		lock()
		return
	}
	p := reflect.ValueOf(key).Pointer()
	for rwPending(p) || !try() {
		if b := Blocked; b != nil {
			b()
		}
	}
}

// Active reports whether a simulated run is in progress (set by the harness).
var Active func() bool

// GoHook starts f as a new simulated client (set by the harness).
var GoHook func(f func())

var realSpawned int32

func simulating() bool { return Hook != nil && Active != nil && Active() }

// Go replaces the go statement: inside a simulated run the new goroutine becomes a
// client of the scheduler; outside (reference evaluations) it is a real goroutine.
func Go(f func()) {
	if GoHook != nil && simulating() {
		GoHook(f)
		return
	}
	atomic.AddInt32(&realSpawned, 1)
	go func() {
		defer atomic.AddInt32(&realSpawned, -1)
		defer func() {
			// the reference evaluation's step budget ran out in a goroutine the library
			// started: the caller sees its own budget end too, nothing to report here
			if r := recover(); r != nil && fmt.Sprintf("%T", r) != "simrt.StepCapExceeded" {
				panic(r)
			}
		}()
		f()
	}()
}

// RealSpawned is the number of real goroutines started by the library outside a
// simulated run that have not finished yet.
func RealSpawned() int32 { return atomic.LoadInt32(&realSpawned) }

// Unbuffered channels cannot rendezvous when both sides only poll, so a simulated send
// on an unbuffered channel parks its value in a table until a simulated receive takes it.
type pendEnt struct {
	ch       uintptr
	v        interface{}
	used     bool
	taken    bool
	detached bool // the sender did not wait (select with default): the receiver frees the slot
}

var pendTab [64]pendEnt

//go:norace
func pendPut(ch uintptr, v interface{}) int {
	for i := range pendTab {
		if !pendTab[i].used {
			pendTab[i] = pendEnt{ch: ch, v: v, used: true}
			return i
		}
	}
	return -1
}

//go:norace
func pendTake(ch uintptr) (interface{}, int) {
	for i := range pendTab {
		if pendTab[i].used && !pendTab[i].taken && pendTab[i].ch == ch {
			pendTab[i].taken = true
			v := pendTab[i].v
			if pendTab[i].detached {
				pendTab[i] = pendEnt{}
			}
			return v, i
		}
	}
	return nil, -1
}

//go:norace
func pendCount(ch uintptr) int {
	n := 0
	for i := range pendTab {
		if pendTab[i].used && !pendTab[i].taken && pendTab[i].ch == ch {
			n++
		}
	}
	return n
}

//go:norace
func pendDetach(i int) { pendTab[i].detached = true }

// Receivers currently polling an unbuffered channel: a select with a default clause may
// only choose its send case when a receiver is really waiting.
type waitEnt struct {
	ch uintptr
	n  int
}

var waitTab [64]waitEnt

//go:norace
func waitAdd(ch uintptr, d int) {
	free := -1
	for i := range waitTab {
		if waitTab[i].n > 0 && waitTab[i].ch == ch {
			waitTab[i].n += d
			return
		}
		if waitTab[i].n <= 0 && free < 0 {
			free = i
		}
	}
	if d > 0 && free >= 0 {
		waitTab[free] = waitEnt{ch, d}
	}
}

//go:norace
func waitCount(ch uintptr) int {
	for i := range waitTab {
		if waitTab[i].n > 0 && waitTab[i].ch == ch {
			return waitTab[i].n
		}
	}
	return 0
}

//go:norace
func waitReset() { waitTab = [64]waitEnt{} }

//go:norace
func pendTaken(i int) bool { return pendTab[i].taken }

//go:norace
func pendFree(i int) { pendTab[i] = pendEnt{} }

//go:norace
func pendReset() { pendTab = [64]pendEnt{} }

// HasSelect is set (by the generated reset file's init) when an instrumented package
// contains a select statement: select is not rewritten, so it can only see real channel
// traffic; sends and receives on unbuffered channels then stay real (blocking) operations
// instead of using the pending table. A client that really blocks makes the simulator
// lose control (exit 2), which is honest; a polling select that never sees a parked value
// would be a false "no-return".
var HasSelect bool

// RealTimers is set when an instrumented package arms real timers (see instr).
var RealTimers bool

// Send replaces ch <- v.
func Send(ch interface{}, v interface{}) {
	rv := reflect.ValueOf(ch)
	var val reflect.Value
	if v == nil {
		val = reflect.Zero(rv.Type().Elem())
	} else {
		val = reflect.ValueOf(v)
		if et := rv.Type().Elem(); val.Type() != et && val.Type().ConvertibleTo(et) {
			val = val.Convert(et)
		}
	}
	if !simulating() {
		rv.Send(val)
		return
	}
	if rv.Cap() > 0 {
		for !rv.TrySend(val) {
			if b := Blocked; b != nil {
				b()
			}
		}
		return
	}
	if HasSelect {
		rv.Send(val)
		return
	}
	slot := pendPut(rv.Pointer(), val.Interface())
	if slot < 0 {
		rv.Send(val) // table full: give up control rather than invent semantics
		return
	}
	raceReleaseMerge(unsafe.Pointer(&pendTab[slot]))
	for !pendTaken(slot) {
		if b := Blocked; b != nil {
			b()
		}
	}
	pendFree(slot)
}

// Recv2 is a channel receive that never blocks the thread under simulation: it polls
// and gives way while nothing is there.
func Recv2(ch interface{}) (interface{}, bool) {
	rv := reflect.ValueOf(ch)
	if !simulating() {
		v, ok := rv.Recv()
		return v.Interface(), ok
	}
	if HasSelect && rv.Cap() == 0 {
		v, ok := rv.Recv()
		return v.Interface(), ok
	}
	waiting := false
	for {
		FireTimers()
		if rv.Cap() == 0 {
			if v, slot := pendTake(rv.Pointer()); slot >= 0 {
				raceAcquire(unsafe.Pointer(&pendTab[slot]))
				if waiting {
					waitAdd(rv.Pointer(), -1)
				}
				return v, true
			}
		}
		v, ok := rv.TryRecv()
		if v.IsValid() {
			if waiting {
				waitAdd(rv.Pointer(), -1)
			}
			return v.Interface(), ok
		}
		if !waiting && rv.Cap() == 0 {
			waiting = true
			waitAdd(rv.Pointer(), 1)
		}
		if b := Blocked; b != nil {
			b()
		}
	}
}

// ---- select --------------------------------------------------------------------------
// select { case v, ok := <-a: … case b <- x: … default: … } is rewritten to
// switch sims := Select(hasDefault, SelRecv(a), SelSend(b, x)); sims.I { case 0: … case 1: … default: … }

type SelCase struct {
	send bool
	ch   reflect.Value
	val  reflect.Value
	slot int
	reg  bool
}

type SelResult struct {
	I  int
	V  interface{}
	OK bool
}

var selState uint64 = 0x9e3779b97f4a7c15

// selNext: the select statement's own random stream (not simRand: the race detector
// would see unsynchronised clients sharing it).
//
//go:norace
func selNext(n int) int {
	selState ^= selState << 13
	selState ^= selState >> 7
	selState ^= selState << 17
	return int(selState % uint64(n))
}

//go:norace
func selSeed(seed int64) { selState = uint64(seed)*0x9e3779b97f4a7c15 | 1 }

func SelRecv(ch interface{}) SelCase { return SelCase{ch: reflect.ValueOf(ch), slot: -1} }

func SelSend(ch interface{}, v interface{}) SelCase {
	rv := reflect.ValueOf(ch)
	var val reflect.Value
	if v == nil {
		val = reflect.Zero(rv.Type().Elem())
	} else {
		val = reflect.ValueOf(v)
		if et := rv.Type().Elem(); val.Type() != et && val.Type().ConvertibleTo(et) {
			val = val.Convert(et)
		}
	}
	return SelCase{send: true, ch: rv, val: val, slot: -1}
}

func Select(hasDefault bool, cases ...SelCase) SelResult {
	if !simulating() {
		rc := make([]reflect.SelectCase, 0, len(cases)+1)
		for _, c := range cases {
			if c.send {
				rc = append(rc, reflect.SelectCase{Dir: reflect.SelectSend, Chan: c.ch, Send: c.val})
			} else {
				rc = append(rc, reflect.SelectCase{Dir: reflect.SelectRecv, Chan: c.ch})
			}
		}
		if hasDefault {
			rc = append(rc, reflect.SelectCase{Dir: reflect.SelectDefault})
		}
		i, v, ok := reflect.Select(rc)
		if i == len(cases) {
			return SelResult{I: -1}
		}
		if cases[i].send {
			return SelResult{I: i}
		}
		return SelResult{I: i, V: v.Interface(), OK: ok}
	}
	n := len(cases)
	// leave: withdraw parked sends and waiter registrations of the cases not chosen
	leave := func(chosen int) {
		for i := range cases {
			c := &cases[i]
			if c.reg {
				waitAdd(c.ch.Pointer(), -1)
				c.reg = false
			}
			if c.slot >= 0 && i != chosen {
				pendFree(c.slot)
				c.slot = -1
			}
		}
	}
	start := 0
	if n > 1 {
		start = selNext(n) // Go chooses among ready cases pseudo-randomly: one stream per run
	}
	for {
		FireTimers()
		// a parked send of this select that a receiver took in the meantime has happened
		for i := range cases {
			if c := &cases[i]; c.slot >= 0 && pendTaken(c.slot) {
				pendFree(c.slot)
				c.slot = -1
				leave(i)
				return SelResult{I: i}
			}
		}
		for k := 0; k < n; k++ {
			i := (start + k) % n
			c := &cases[i]
			if !c.ch.IsValid() || c.ch.IsNil() {
				continue
			}
			if !c.send {
				if c.ch.Cap() == 0 {
					if v, slot := pendTake(c.ch.Pointer()); slot >= 0 {
						raceAcquire(unsafe.Pointer(&pendTab[slot]))
						leave(i)
						return SelResult{I: i, V: v, OK: true}
					}
				}
				if v, ok := c.ch.TryRecv(); v.IsValid() {
					leave(i)
					return SelResult{I: i, V: v.Interface(), OK: ok}
				}
				continue
			}
			if c.ch.Cap() > 0 {
				if c.ch.TrySend(c.val) {
					leave(i)
					return SelResult{I: i}
				}
				continue
			}
			if c.slot >= 0 {
				continue
			}
			if hasDefault {
				// chosen only if a receiver is waiting right now
				if waitCount(c.ch.Pointer()) > pendCount(c.ch.Pointer()) {
					if slot := pendPut(c.ch.Pointer(), c.val.Interface()); slot >= 0 {
						raceReleaseMerge(unsafe.Pointer(&pendTab[slot]))
						pendDetach(slot)
						leave(i)
						return SelResult{I: i}
					}
				}
				continue
			}
			if slot := pendPut(c.ch.Pointer(), c.val.Interface()); slot >= 0 {
				raceReleaseMerge(unsafe.Pointer(&pendTab[slot]))
				c.slot = slot
			}
		}
		if hasDefault {
			leave(-1)
			return SelResult{I: -1}
		}
		for i := range cases {
			if c := &cases[i]; !c.send && !c.reg && c.ch.IsValid() && !c.ch.IsNil() && c.ch.Cap() == 0 {
				c.reg = true
				waitAdd(c.ch.Pointer(), 1)
			}
		}
		if b := Blocked; b != nil {
			b()
		}
	}
}

func RecvWait(ch interface{}) { Recv2(ch) }

// ---- simulated clock and deterministic math/rand ----------------------------------------
// The library's calls of time.Now / Since / Until / Sleep / After and of the package-level
// math/rand functions are routed here. Under the harness time is the simulator's: it
// advances with the executed statements, jumps forward when the harness injects a clock
// fault, and jumps to the next timer when every client is blocked (discrete-event time).

// Clock returns the simulated time elapsed in nanoseconds; nil means real time.
var Clock func() int64

// ClockAdvance moves the simulated clock forward (Sleep).
var ClockAdvance func(ns int64)

var simEpoch = time.Date(2026, 1, 1, 0, 0, 0, 0, time.UTC)

func Now() time.Time {
	if c := Clock; c != nil {
		return simEpoch.Add(time.Duration(c()))
	}
	return time.Now()
}

func Since(t time.Time) time.Duration { return Now().Sub(t) }
func Until(t time.Time) time.Duration { return t.Sub(Now()) }

func Sleep(d time.Duration) {
	if Clock == nil || ClockAdvance == nil {
		time.Sleep(d)
		return
	}
	if d > 0 {
		ClockAdvance(int64(d))
	}
	Y(-5)
}

type simTimer struct {
	at   int64
	ch   chan time.Time
	used bool
}

var timerTab [64]simTimer

//go:norace
func timerAdd(at int64, ch chan time.Time) bool {
	for i := range timerTab {
		if !timerTab[i].used {
			timerTab[i] = simTimer{at: at, ch: ch, used: true}
			return true
		}
	}
	return false
}

// FireTimers delivers every timer whose deadline has passed; it returns the earliest
// pending deadline (0 if none).
//
//go:norace
func FireTimers() int64 {
	if Clock == nil {
		return 0
	}
	now := Clock()
	var next int64
	for i := range timerTab {
		t := &timerTab[i]
		if !t.used {
			continue
		}
		if t.at <= now {
			select {
			case t.ch <- simEpoch.Add(time.Duration(t.at)):
			default:
			}
			t.used = false
			continue
		}
		if next == 0 || t.at < next {
			next = t.at
		}
	}
	return next
}

//go:norace
func timerReset() { timerTab = [64]simTimer{} }

// After replaces time.After.
func After(d time.Duration) <-chan time.Time {
	if Clock == nil {
		return time.After(d)
	}
	ch := make(chan time.Time, 1)
	if !timerAdd(Clock()+int64(d), ch) {
		return time.After(d)
	}
	FireTimers()
	return ch
}

// simSource: the deterministic stream behind Rand(). The package-level math/rand
// functions it stands in for are safe for concurrent use, so its state is updated where
// the race detector does not look (clients are unsynchronised as far as it can tell).
type simSource struct{ s uint64 }

//go:norace
func (x *simSource) Uint64() uint64 {
	x.s += 0x9e3779b97f4a7c15
	z := x.s
	z = (z ^ (z >> 30)) * 0xbf58476d1ce4e5b9
	z = (z ^ (z >> 27)) * 0x94d049bb133111eb
	return z ^ (z >> 31)
}

func (x *simSource) Int63() int64 { return int64(x.Uint64() >> 1) }

//go:norace
func (x *simSource) Seed(seed int64) { x.s = uint64(seed) }

var simSrc = &simSource{s: 1}
var simRand = rand.New(simSrc)

// Rand replaces the package-level math/rand source: one deterministic stream per run.
func Rand() *rand.Rand { return simRand }

// RandSeed is called by the harness at the start of every run.
func RandSeed(seed int64) { simSrc.Seed(seed); selSeed(seed) }

// ---- deterministic sync.Pool -------------------------------------------------------
// sync.Pool hands out "some" object: which one depends on the P the goroutine runs on and
// on GC timing, and under -race Put drops a quarter of the objects at random. Under the
// harness a pool is a plain LIFO stack per *sync.Pool (never dropping), so that a run is
// a function of its seed, and misuse (double Put, use after Put) shows deterministically.
// The happens-before edge real pools give (Put of x before the Get that returns x) is
// reproduced with race annotations on x itself, and nothing more.

type poolEnt struct {
	p     *sync.Pool
	items [64]interface{}
	n     int
}

var poolTab [32]poolEnt

//go:norace
func poolPush(p *sync.Pool, x interface{}) {
	free := -1
	for i := range poolTab {
		if poolTab[i].p == p {
			if poolTab[i].n < len(poolTab[i].items) {
				poolTab[i].items[poolTab[i].n] = x
				poolTab[i].n++
			}
			return
		}
		if poolTab[i].p == nil && free < 0 {
			free = i
		}
	}
	if free >= 0 {
		poolTab[free].p = p
		poolTab[free].items[0] = x
		poolTab[free].n = 1
	}
}

//go:norace
func poolPop(p *sync.Pool) (interface{}, bool) {
	for i := range poolTab {
		if poolTab[i].p == p && poolTab[i].n > 0 {
			poolTab[i].n--
			x := poolTab[i].items[poolTab[i].n]
			poolTab[i].items[poolTab[i].n] = nil
			return x, true
		}
	}
	return nil, false
}

//go:norace
func poolReset() { poolTab = [32]poolEnt{} }

func detPool() bool { return Hook != nil && atomic.LoadInt32(&realSpawned) == 0 }

func objAddr(x interface{}) unsafe.Pointer {
	rv := reflect.ValueOf(x)
	switch rv.Kind() {
	case reflect.Ptr, reflect.Map, reflect.Slice, reflect.Chan, reflect.Func, reflect.UnsafePointer:
		return unsafe.Pointer(rv.Pointer())
	}
	return nil
}

// PoolGet replaces p.Get().
func PoolGet(p *sync.Pool) interface{} {
	if !detPool() {
		return p.Get()
	}
	if x, ok := poolPop(p); ok {
		if a := objAddr(x); a != nil {
			raceAcquire(a)
		}
		return x
	}
	if p.New != nil {
		return p.New()
	}
	return nil
}

// PoolPut replaces p.Put(x).
func PoolPut(p *sync.Pool, x interface{}) {
	if !detPool() {
		p.Put(x)
		return
	}
	if x == nil {
		return
	}
	if a := objAddr(x); a != nil {
		raceReleaseMerge(a)
	}
	poolPush(p, x)
}

type wgEnt struct {
	p *sync.WaitGroup
	n int
}

var wgTab [64]wgEnt

//go:norace
func wgTrack(wg *sync.WaitGroup, n int) {
	free := -1
	for i := range wgTab {
		if wgTab[i].p == wg {
			wgTab[i].n += n
			if wgTab[i].n <= 0 {
				wgTab[i] = wgEnt{}
			}
			return
		}
		if wgTab[i].p == nil && free < 0 {
			free = i
		}
	}
	if free >= 0 && n > 0 {
		wgTab[free] = wgEnt{wg, n}
	}
}

//go:norace
func wgCount(wg *sync.WaitGroup) int {
	for i := range wgTab {
		if wgTab[i].p == wg {
			return wgTab[i].n
		}
	}
	return 0
}

//go:norace
func wgReset() { wgTab = [64]wgEnt{} }

// WGAdd replaces wg.Add(n) / wg.Done(): the counter is mirrored for WGWait.
func WGAdd(wg *sync.WaitGroup, n int) {
	if simulating() {
		wgTrack(wg, n)
	}
	wg.Add(n)
}

// WGWait replaces wg.Wait(): under simulation it gives way until the mirrored counter
// reaches zero; the real Wait then returns at once (and gives the race detector its
// happens-before edge).
func WGWait(wg *sync.WaitGroup) {
	if simulating() {
		for wgCount(wg) > 0 {
			if b := Blocked; b != nil {
				b()
			}
		}
	}
	wg.Wait()
}

type condEnt struct {
	c      *sync.Cond
	ticket uint64
	woken  bool
	used   bool
}

var condTab [128]condEnt
var condTicket uint64

//go:norace
func condRegister(c *sync.Cond) int {
	for i := range condTab {
		if !condTab[i].used {
			condTicket++
			condTab[i] = condEnt{c, condTicket, false, true}
			return i
		}
	}
	return -1
}

//go:norace
func condWoken(i int) bool { return condTab[i].woken }

//go:norace
func condFree(i int) { condTab[i] = condEnt{} }

//go:norace
func condWake(c *sync.Cond, all bool) {
	for {
		best := -1
		for i := range condTab {
			e := &condTab[i]
			if e.used && !e.woken && e.c == c && (best < 0 || e.ticket < condTab[best].ticket) {
				best = i
			}
		}
		if best < 0 {
			return
		}
		condTab[best].woken = true
		if !all {
			return
		}
	}
}

//go:norace
func condReset() { condTab = [128]condEnt{}; condTicket = 0 }

// CondSignal / CondBroadcast replace c.Signal() / c.Broadcast(): they wake the longest
// waiting / all simulated waiters registered on c. A signal nobody waits for is lost,
// as with the real sync.Cond.
func CondSignal(c *sync.Cond) {
	if simulating() {
		condWake(c, false)
	}
	c.Signal()
}

func CondBroadcast(c *sync.Cond) {
	if simulating() {
		condWake(c, true)
	}
	c.Broadcast()
}

// CondWait replaces c.Wait(): register as a waiter, unlock, give way until a Signal or
// Broadcast issued after the registration wakes this waiter, lock again. There are no
// spurious wake-ups (sync.Cond has none), so a lost wake-up blocks for ever and ends in
// the deadlock detector.
func CondWait(c *sync.Cond) {
	if !simulating() {
		c.Wait()
		return
	}
	slot := condRegister(c)
	c.L.Unlock()
	if slot >= 0 {
		func() {
			defer condFree(slot)
			for !condWoken(slot) {
				if b := Blocked; b != nil {
					b()
				}
			}
		}()
	} else if b := Blocked; b != nil {
		b()
	}
	if tl, ok := c.L.(interface{ TryLock() bool }); ok {
		for !tl.TryLock() {
			if b := Blocked; b != nil {
				b()
			}
		}
		return
	}
	c.L.Lock()
}

func CSEnter(lock func())   { csInc(); lock() }
func CSExit(unlock func())  { unlock(); csDec() }
func CSTry(try func() bool) bool {
	ok := try()
	if ok {
		csInc()
	}
	return ok
}
func CSDo(do func(func()), f func()) {
	csInc()
	defer csDec()
	do(f)
}

func RegisterReset(f func()) { resets = append(resets, f) }

// ResetAll returns every instrumented package to its freshly initialised state.
func ResetAll() {
	wgReset()
	rwReset()
	condReset()
	poolReset()
	pendReset()
	waitReset()
	timerReset()
	for _, f := range resets {
		f()
	}
}

type PairSI struct {
	K string
	V interface{}
}

func MapPairsSI(m map[string]interface{}) []PairSI {
	if len(m) == 0 {
		return nil
	}
	keys := make([]string, 0, len(m))
	for k := range m {
		keys = append(keys, k)
	}
	sort.Strings(keys)
	if f := MapOrder; f != nil {
		f(keys)
	}
	out := make([]PairSI, len(keys))
	for i, k := range keys {
		out[i] = PairSI{k, m[k]}
	}
	return out
}

type Pair struct {
	K, V interface{}
}

// SyncMapRange: sync.Map.Range over a snapshot in the seam's order.
func SyncMapRange(m *sync.Map, f func(k, v interface{}) bool) {
	tmp := map[interface{}]interface{}{}
	m.Range(func(k, v interface{}) bool { tmp[k] = v; return true })
	for _, p := range MapPairs(tmp) {
		if _, still := m.Load(p.K); !still {
			continue
		}
		if !f(p.K, p.V) {
			return
		}
	}
}

func orderedKeys(rv reflect.Value) []reflect.Value {
	ks := rv.MapKeys()
	if len(ks) < 2 {
		return ks
	}
	type ent struct {
		s string
		k reflect.Value
	}
	ents := make([]ent, len(ks))
	for i, k := range ks {
		s := ""
		if k.CanInterface() {
			s = fmt.Sprintf("%v", k.Interface())
		} else {
			s = fmt.Sprintf("%v", k)
		}
		ents[i] = ent{s, k}
	}
	sort.SliceStable(ents, func(i, j int) bool { return ents[i].s < ents[j].s })
	if f := MapOrder; f != nil {
		names := make([]string, len(ents))
		idx := map[string][]int{}
		for i, e := range ents {
			names[i] = e.s
			idx[e.s] = append(idx[e.s], i)
		}
		f(names)
		re := make([]ent, 0, len(ents))
		for _, nme := range names {
			l := idx[nme]
			if len(l) == 0 {
				continue
			}
			re = append(re, ents[l[0]])
			idx[nme] = l[1:]
		}
		if len(re) == len(ents) {
			ents = re
		}
	}
	for i, e := range ents {
		ks[i] = e.k
	}
	return ks
}

// ReflectMapKeys: reflect.Value.MapKeys in the seam's order.
func ReflectMapKeys(rv reflect.Value) []reflect.Value { return orderedKeys(rv) }

// MapIter stands in for *reflect.MapIter (Next / Key / Value) in the seam's order.
type MapIter struct {
	m    reflect.Value
	keys []reflect.Value
	i    int
}

func ReflectMapRange(rv reflect.Value) *MapIter {
	if rv.Kind() != reflect.Map {
		rv.MapRange() // panics the way reflect does
	}
	return &MapIter{m: rv, keys: orderedKeys(rv), i: -1}
}

func (it *MapIter) Next() bool {
	for it.i+1 < len(it.keys) {
		it.i++
		if it.m.MapIndex(it.keys[it.i]).IsValid() {
			return true
		}
	}
	it.i = len(it.keys)
	return false
}
func (it *MapIter) Key() reflect.Value   { return it.keys[it.i] }
func (it *MapIter) Value() reflect.Value { return it.m.MapIndex(it.keys[it.i]) }
func (it *MapIter) Reset(rv reflect.Value) {
	it.m, it.keys, it.i = rv, orderedKeys(rv), -1
}

func MapPairs(m interface{}) []Pair {
	rv := reflect.ValueOf(m)
	if rv.Kind() != reflect.Map || rv.Len() == 0 {
		return nil
	}
	type ent struct {
		s string
		k reflect.Value
	}
	ks := rv.MapKeys()
	ents := make([]ent, len(ks))
	for i, k := range ks {
		ents[i] = ent{fmt.Sprintf("%v", k.Interface()), k}
	}
	sort.SliceStable(ents, func(i, j int) bool { return ents[i].s < ents[j].s })
	if f := MapOrder; f != nil {
		names := make([]string, len(ents))
		idx := map[string][]int{}
		for i, e := range ents {
			names[i] = e.s
			idx[e.s] = append(idx[e.s], i)
		}
		f(names)
		re := make([]ent, 0, len(ents))
		for _, nme := range names {
			l := idx[nme]
			if len(l) == 0 {
				continue
			}
			re = append(re, ents[l[0]])
			idx[nme] = l[1:]
		}
		if len(re) == len(ents) {
			ents = re
		}
	}
	out := make([]Pair, len(ents))
	for i, e := range ents {
		out[i] = Pair{e.k.Interface(), rv.MapIndex(e.k).Interface()}
	}
	return out
}
`

// transformJpgo turns cmd/jpgo into an importable package compiled against the shims.
func transformJpgo(srcDir, dstDir, shimPrefix string) {
	os.MkdirAll(dstDir, 0755)
	shimmed := map[string]bool{"os": true, "fmt": true, "flag": true, "io/ioutil": true, "log": true}
	files := goFiles(srcDir)
	if len(files) == 0 {
		fatalf("no Go files in %s", srcDir)
	}
	hasMain := false
	var resetCalls []string
	for _, fn := range files {
		src, err := ioutil.ReadFile(fn)
		if err != nil {
			fatalf("%v", err)
		}
		fset := token.NewFileSet()
		f, err := parser.ParseFile(fset, fn, src, parser.ParseComments)
		if err != nil {
			fatalf("parse: %v", err)
		}
		if f.Name.Name != "main" || hasIgnoreTag(f) {
			continue
		}
		ed := &editor{src: src}
		o := fset.Position(f.Name.Pos()).Offset
		ed.replace(o, o+len("main"), "jpgomain")
		for _, imp := range f.Imports {
			p := strings.Trim(imp.Path.Value, `"`)
			if shimmed[p] {
				a := fset.Position(imp.Path.Pos()).Offset
				e := fset.Position(imp.Path.End()).Offset
				ed.replace(a, e, `"`+shimPrefix+"/"+p+`"`)
			}
		}
		for _, d := range f.Decls {
			if fd, ok := d.(*ast.FuncDecl); ok && fd.Name.Name == "main" && fd.Recv == nil {
				hasMain = true
			}
		}
		// a real jpgo process starts with freshly initialised package-level variables; the
		// in-process runs must too. Purely syntactic (source order, initialiser text or zero
		// value), appended to the SAME file so that the initialisers see their imports.
		var resets []string
		txt := func(n ast.Node) string {
			return string(src[fset.Position(n.Pos()).Offset:fset.Position(n.End()).Offset])
		}
		for _, d := range f.Decls {
			gd, ok := d.(*ast.GenDecl)
			if !ok || gd.Tok != token.VAR {
				continue
			}
			for _, sp := range gd.Specs {
				vs := sp.(*ast.ValueSpec)
				var names []string
				blank := false
				for _, n := range vs.Names {
					names = append(names, n.Name)
					if n.Name == "_" {
						blank = true
					}
				}
				switch {
				case len(vs.Values) == len(vs.Names):
					for i, n := range vs.Names {
						if n.Name != "_" {
							resets = append(resets, "\t"+n.Name+" = "+txt(vs.Values[i]))
						}
					}
				case len(vs.Values) == 1 && !blank:
					resets = append(resets, "\t"+strings.Join(names, ", ")+" = "+txt(vs.Values[0]))
				case len(vs.Values) == 0 && vs.Type != nil:
					for _, n := range vs.Names {
						if n.Name != "_" {
							resets = append(resets, "\t"+n.Name+" = *new("+txt(vs.Type)+")")
						}
					}
				}
			}
		}
		if len(resets) > 0 {
			name := fmt.Sprintf("zzVerifResetFile%d", len(resetCalls))
			ed.insert(len(src), "\nfunc "+name+"() {\n"+strings.Join(resets, "\n")+"\n}\n")
			resetCalls = append(resetCalls, "\t"+name+"()")
		}
		if err := ioutil.WriteFile(filepath.Join(dstDir, filepath.Base(fn)), ed.render(), 0644); err != nil {
			fatalf("%v", err)
		}
		report.JpgoFiles = append(report.JpgoFiles, filepath.Base(fn))
	}
	if !hasMain {
		fatalf("cmd/jpgo has no func main")
	}
	extra := "// Code generated by /verif/instr. DO NOT EDIT.\n\npackage jpgomain\n\n// VerifMain runs jpgo's real main function.\nfunc VerifMain() { main() }\n\n" +
		"// VerifReset gives the package-level variables the values a fresh process would start with.\nfunc VerifReset() {\n" + strings.Join(resetCalls, "\n") + "\n}\n"
	if err := ioutil.WriteFile(filepath.Join(dstDir, "zz_verif_main.go"), []byte(extra), 0644); err != nil {
		fatalf("%v", err)
	}
}
