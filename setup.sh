#!/bin/sh
# Build the framework from files on disk only (offline).
set -e
cd "$(dirname "$0")"
. ./env.sh
mkdir -p bin
(cd instr && go build -o ../bin/instr .)
echo "setup ok"
